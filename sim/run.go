package sim

import (
	"crypto/sha256"
	"encoding/binary"
	"encoding/hex"
	"encoding/json"
	"fmt"
	"math/big"
	"math/rand/v2"
	"os"
	"runtime/debug"
	"sort"
	"strings"
	"testing"
	"testing/synctest"
	"time"

	"github.com/bnb-chain/tss-lib/v2/tss"
)

// Scenario fully determines one simulated run together with Choices.
type Scenario struct {
	Check   string                 `json:"check"`
	Kind    string                 `json:"kind"`
	Seed    uint64                 `json:"seed"`
	Run     int                    `json:"run"`
	P       map[string]interface{} `json:"p"`
	Sched   SchedConfig            `json:"sched"`
	Choices []int                  `json:"choices,omitempty"`
	Replay  bool                   `json:"replay,omitempty"`
}

func (s *Scenario) Int(k string, def int) int {
	if v, ok := s.P[k]; ok {
		switch x := v.(type) {
		case float64:
			return int(x)
		case int:
			return x
		}
	}
	return def
}
func (s *Scenario) Str(k, def string) string {
	if v, ok := s.P[k].(string); ok {
		return v
	}
	return def
}
func (s *Scenario) Bool(k string) bool {
	v, _ := s.P[k].(bool)
	return v
}
func (s *Scenario) Ints(k string) []int {
	var out []int
	switch x := s.P[k].(type) {
	case []interface{}:
		for _, e := range x {
			if f, ok := e.(float64); ok {
				out = append(out, int(f))
			}
		}
	case []int:
		out = x
	}
	return out
}
func (s *Scenario) Strs(k string) []string {
	var out []string
	switch x := s.P[k].(type) {
	case []interface{}:
		for _, e := range x {
			if f, ok := e.(string); ok {
				out = append(out, f)
			}
		}
	case []string:
		out = x
	}
	return out
}

type Result struct {
	Scenario   *Scenario         `json:"scenario"`
	Verdict    string            `json:"verdict"` // ok | violation | skip
	Violation  *Violation        `json:"violation,omitempty"`
	Steps      int               `json:"steps"`
	LogHash    string            `json:"log_hash"`
	SchedHash  string            `json:"sched_hash"`
	Nontrivial bool              `json:"nontrivial"`
	Faults     map[string]int    `json:"faults,omitempty"`
	Probes     map[string]int    `json:"probes,omitempty"`
	Choices    []int             `json:"choices,omitempty"`
	Parked     int               `json:"parked"`
	Reordered  int               `json:"reordered"`
	WallMs     int64             `json:"wall_ms"`
	SimTimeMs  int64             `json:"sim_time_ms"`
	Sample     interface{}       `json:"sample,omitempty"`
	Cells      map[string]string `json:"cells,omitempty"` // fault-enumeration: cell id -> outcome class
	Notes      []string          `json:"notes,omitempty"`
	Log        []string          `json:"log,omitempty"`
	Known      []string          `json:"known,omitempty"` // known-finding keys reproduced in this run
}

// RunCtx is what a driver sees.
type RunCtx struct {
	T      *testing.T
	Sc     *Scenario
	Ch     *Chooser
	Res    *Result
	Worlds []*World
	Rng    *rand.Rand // scenario-level PRNG (never used in replayed decisions)
	fifo   *Chooser
	After  []func()
	// InputHook lets a driver corrupt the inputs of one party before the parties are built
	// (wrong-input Byzantine nodes): stage names the slice handed over.
	InputHook func(stage string, data interface{})
	start  time.Time
}

func seedFor(parts ...interface{}) uint64 {
	h := sha256.New()
	for _, p := range parts {
		fmt.Fprintf(h, "%v|", p)
	}
	return binary.BigEndian.Uint64(h.Sum(nil)[:8])
}

func (rc *RunCtx) EntropySeed(tag string) string {
	return fmt.Sprintf("%d/%d/%s/%s", rc.Sc.Seed, rc.Sc.Run, rc.Sc.Check, tag)
}

// NewWorld creates a world whose scheduling decisions are part of the run's choice list.
func (rc *RunCtx) NewWorld(tag string) *World {
	w := NewWorld(rc.EntropySeed(tag), rc.Ch)
	w.Logf("world %s", tag)
	rc.Worlds = append(rc.Worlds, w)
	return w
}

// NewQuietWorld creates a world driven FIFO without faults; its decisions are not recorded.
func (rc *RunCtx) NewQuietWorld(tag string) *World {
	w := NewWorld(rc.EntropySeed(tag), NewChooser(0, nil, true))
	w.Logf("world %s (prelude, fifo)", tag)
	w.Quiet = true
	rc.Worlds = append(rc.Worlds, w)
	return w
}

func (rc *RunCtx) Fail(class, format string, a ...interface{}) {
	if rc.Res.Violation == nil {
		step := 0
		if len(rc.Worlds) > 0 {
			step = rc.Worlds[len(rc.Worlds)-1].StepNo
		}
		rc.Res.Violation = &Violation{Class: class, Msg: fmt.Sprintf(format, a...), Step: step}
	}
}

func (rc *RunCtx) Failed() bool {
	if rc.Res.Violation != nil {
		return true
	}
	for _, w := range rc.Worlds {
		if w.Violation != nil {
			return true
		}
	}
	return false
}

func (rc *RunCtx) Note(format string, a ...interface{}) {
	rc.Res.Notes = append(rc.Res.Notes, fmt.Sprintf(format, a...))
}

// DumpedLog holds the event log of the last scenario run with P["dumplog"] (debugging aid for the
// determinism self-test).
var DumpedLog []string

type Driver func(rc *RunCtx)

var Drivers = map[string]Driver{}

// RunScenario executes one scenario in a fresh synctest bubble.
func RunScenario(t *testing.T, sc *Scenario) *Result {
	res := &Result{Scenario: sc, Verdict: "ok", Faults: map[string]int{}, Probes: map[string]int{}}
	drv := Drivers[sc.Kind]
	if drv == nil {
		res.Verdict = "violation"
		res.Violation = &Violation{Class: "harness", Msg: "unknown driver " + sc.Kind}
		return res
	}
	PIDStrings = sc.Str("idstrings", "")
	OwnPID = sc.Str("ownpid", "")
	defer func() { PIDStrings, OwnPID = "", "" }()
	// every protocol and proof call of the harness names its curve: the process-wide default curve
	// (tss.SetCurve) must not matter. Odd runs execute with the other curve as the default.
	if os.Getenv("VERIF_DEFAULT_CURVE") != "fixed" && sc.Run%2 == 1 {
		tss.SetCurve(tss.Edwards())
		defer tss.SetCurve(tss.S256())
	}
	rc := &RunCtx{T: t, Sc: sc, Res: res}
	rc.Ch = NewChooser(seedFor(sc.Seed, sc.Check, sc.Run, "sched"), sc.Choices, sc.Replay)
	rc.Rng = rand.New(rand.NewPCG(seedFor(sc.Seed, sc.Check, sc.Run, "scenario"), 7))
	wall := time.Now()
	var simStart, simEnd time.Time
	func() {
		Tick()
		watching.Store(true)
		defer watching.Store(false)
		defer func() {
			if r := recover(); r != nil {
				msg := fmt.Sprint(r)
				if strings.Contains(msg, "deadlock") && rc.Failed() {
					return // blocked goroutines left over from an already reported hang
				}
				if strings.Contains(msg, "deadlock") {
					rc.Fail("goroutine-leak", "library goroutines still blocked at the end of the run: %s", msg)
					return
				}
				panic(r)
			}
		}()
		synctest.Test(t, func(t *testing.T) {
			simStart = time.Now()
			defer func() {
				simEnd = time.Now()
				if r := recover(); r != nil {
					rc.Fail("harness-panic", "driver panicked: %v\n%s", r, firstFrames(string(debug.Stack()), 14))
				}
			}()
			drv(rc)
		})
	}()
	for _, f := range rc.After {
		f() // work that must happen outside the bubble (real-time checkers)
	}
	res.WallMs = time.Since(wall).Milliseconds()
	res.SimTimeMs = simEnd.Sub(simStart).Milliseconds()
	h := sha256.New()
	hs := sha256.New()
	nontrivial := false
	for _, w := range rc.Worlds {
		if res.Violation == nil && w.Violation != nil {
			res.Violation = w.Violation
		}
		res.Steps += w.StepNo
		if w.Quiet {
			continue // cached preludes: their outcome is folded into the main world's log
		}
		h.Write([]byte(w.LogHash()))
		fmt.Fprintf(h, "reads:")
		for _, n := range w.Nodes {
			fmt.Fprintf(h, "%s=%d/%d,%d/%d;", n.Name, n.Rand.main.Reads, n.Rand.main.Bytes, n.PKRand.main.Reads, n.PKRand.main.Bytes)
		}
		for k, v := range w.Faults {
			res.Faults[k] += v
			if v > 0 {
				nontrivial = true
			}
		}
		for k, v := range w.Probes {
			res.Probes[k] += v
		}
		if !w.Quiet {
			hs.Write([]byte(w.ScheduleHash()))
			if !w.IsFIFO() {
				nontrivial = true
			}
		}
		res.Parked += w.St.ParkCount
		res.Reordered += w.St.Reordered
	}
	if res.Reordered > 0 {
		nontrivial = true
	}
	// drivers without a world (generator, derivation, exchange runs) fold their observable outcome
	// into the event-log hash through the sample
	if len(rc.Worlds) == 0 && res.Sample != nil {
		h.Write([]byte(toJSON(res.Sample)))
	}
	if sc.Bool("dumplog") {
		DumpedLog = nil
		for _, w := range rc.Worlds {
			if !w.Quiet {
				DumpedLog = append(DumpedLog, w.Log...)
				for _, n := range w.Nodes {
					DumpedLog = append(DumpedLog, fmt.Sprintf("reads %s=%d/%d,%d/%d", n.Name, n.Rand.main.Reads, n.Rand.main.Bytes, n.PKRand.main.Reads, n.PKRand.main.Bytes))
				}
			}
		}
	}
	res.LogHash = hex.EncodeToString(h.Sum(nil))
	res.SchedHash = hex.EncodeToString(hs.Sum(nil)[:8])
	res.Nontrivial = res.Nontrivial || nontrivial
	res.Choices = rc.Ch.Rec
	if res.Violation != nil {
		res.Verdict = "violation"
		for _, w := range rc.Worlds {
			res.Log = append(res.Log, w.Log...)
		}
		if len(res.Log) > 400 {
			res.Log = res.Log[len(res.Log)-400:]
		}
	}
	return res
}

// ---- helpers for scenario generation ----------------------------------------------------------

func pickStr(r *rand.Rand, xs ...string) string { return xs[r.IntN(len(xs))] }

func firstFrames(stack string, n int) string {
	var out []string
	for _, l := range strings.Split(stack, "\n") {
		l = strings.TrimSpace(l)
		if strings.HasPrefix(l, "/verif/") || strings.HasPrefix(l, RepoRoot()+"/") {
			out = append(out, strings.Fields(l)[0])
			if len(out) >= n {
				break
			}
		}
	}
	return strings.Join(out, " < ")
}

// GenSched draws a benign (no loss) schedule configuration.
func GenSched(r *rand.Rand, nodes int, allowPreStart bool, allowFlip bool) SchedConfig {
	c := SchedConfig{Strategy: StrategyNames[r.IntN(len(StrategyNames))], Victim: r.IntN(nodes), SwitchEvery: 3 + r.IntN(9)}
	if c.Strategy == "prestart-flood" && !allowPreStart {
		c.Strategy = "random"
	}
	if allowPreStart && (c.Strategy == "prestart-flood" || r.IntN(3) == 0) {
		c.PreStart = true
	}
	if r.IntN(2) == 0 {
		c.DupPct = []int{5, 15, 40}[r.IntN(3)]
	}
	if r.IntN(3) == 0 {
		c.ReplayPct = []int{5, 15}[r.IntN(2)]
	}
	if allowFlip && r.IntN(4) == 0 {
		c.FlipPct = 10
	}
	c.MaxFaults = 4 + r.IntN(30)
	return c
}

// idKeys generates party-id keys following a pattern.
func idKeys(r *rand.Rand, pattern string, n int, q *big.Int, base int64) []*big.Int {
	out := make([]*big.Int, n)
	switch pattern {
	case "small":
		for i := range out {
			out[i] = big.NewInt(base + int64(i) + 1)
		}
	case "nearq":
		// q-1-k .. and q+1.. (never 0 mod q, distinct mod q)
		for i := range out {
			if i%2 == 0 {
				out[i] = new(big.Int).Sub(q, big.NewInt(base+int64(i/2)+1))
			} else {
				out[i] = new(big.Int).Add(q, big.NewInt(base+int64(i/2)+1))
			}
		}
	case "congruent":
		// inadmissible on purpose: the last id is congruent to the first modulo q. Key generation must
		// either refuse it or, if it completes, still satisfy the sharing oracle
		for i := range out {
			out[i] = big.NewInt(base + int64(i) + 5)
		}
		out[n-1] = new(big.Int).Add(out[0], q)
	case "aboveq":
		for i := range out {
			out[i] = new(big.Int).Add(new(big.Int).Lsh(q, 1), big.NewInt(base+int64(i)+3))
		}
	default: // random 256-bit, distinct and non-zero mod q
		seen := map[string]bool{}
		for i := range out {
			for {
				b := make([]byte, 32)
				for j := range b {
					b[j] = byte(r.UintN(256))
				}
				k := new(big.Int).SetBytes(b)
				m := new(big.Int).Mod(k, q)
				if m.Sign() == 0 || seen[m.String()] || k.Sign() == 0 {
					continue
				}
				seen[m.String()] = true
				out[i] = k
				break
			}
		}
	}
	return out
}

func toJSON(v interface{}) string {
	b, _ := json.Marshal(v)
	return string(b)
}

func sortedKeys(m map[string]int) []string {
	var ks []string
	for k := range m {
		ks = append(ks, k)
	}
	sort.Strings(ks)
	return ks
}
