package sim

import (
	"math/rand/v2"
	"strings"
)

// C10 — every honestly generated zero-knowledge proof verifies, also after encoding (in situ).
// Fault-free runs of the six protocols are completeness experiments for the proofs they carry, on
// real parameters, sessions and wire encoding; the entropy mode "edges" makes about one read in 64
// come back with leading zero bytes so that short encodings of nonces, masks and responses occur.

func init() {
	Gens["C10"] = genC10
}

// proofsIn: which proof systems a message type carries (and how many instances).
var proofsIn = map[string]map[string]int{
	"ecdsa.keygen.KGRound1Message":      {"dln": 2},
	"ecdsa.keygen.KGRound2Message1":     {"fac": 1},
	"ecdsa.keygen.KGRound2Message2":     {"mod": 1},
	"ecdsa.keygen.KGRound3Message":      {"paillier-key": 1},
	"ecdsa.signing.SignRound1Message1":  {"alice-range": 1},
	"ecdsa.signing.SignRound2Message":   {"bob": 1, "bob-wc": 1},
	"ecdsa.signing.SignRound4Message":   {"schnorr": 1},
	"ecdsa.signing.SignRound6Message":   {"schnorr": 1, "schnorr-v": 1},
	"ecdsa.resharing.DGRound2Message1":  {"dln": 2, "mod": 1},
	"ecdsa.resharing.DGRound4Message1":  {"fac": 1},
	"eddsa.keygen.KGRound2Message2":     {"schnorr-ed": 1},
	"eddsa.signing.SignRound2Message":   {"schnorr-ed": 1},
}

func countProofs(rc *RunCtx, w *World) {
	edge := 0
	for _, n := range w.Nodes {
		edge += n.Rand.main.EdgeReads + n.PKRand.main.EdgeReads
		for _, em := range n.Emitted {
			for sys, k := range proofsIn[em.Type] {
				rc.Res.Probes["proofs_verified_"+sys] += k * len(em.To)
			}
			// short encodings on the wire: a proof component shorter than its siblings' usual size
			if m, err := decodeAny(em.Wire); err == nil {
				for _, f := range FieldsOf(em.Type) {
					if !proofFields[f.Name] {
						continue
					}
					if f.List {
						for i := 0; i < listLenOf(m, f.Name); i++ {
							b, _ := getField(m, f.Name, i)
							if l := len(b); l > 8 && l != 32 && l%32 != 0 && l%32 >= 29 {
								rc.Res.Probes["short_encoded_proof_components"]++
							}
						}
					} else if b, ok := getField(m, f.Name, -1); ok && len(b) > 8 && len(b) < 32 {
						rc.Res.Probes["short_encoded_proof_components"]++
					}
				}
			}
		}
	}
	rc.Res.Probes["edge_entropy_reads"] += edge
}

func genC10(tier string, seed uint64, run int) *Scenario {
	// in-situ protocol runs and prover->wire->verifier exchanges alternate in blocks of 40 / 100
	const insitu, trips = 40, 100
	if k := run % (insitu + trips); k >= insitu {
		return genProofRoundtrip(seed, (run/(insitu+trips))*trips+k-insitu)
	}
	run = (run/(insitu+trips))*insitu + run%(insitu+trips)
	r := rand.New(rand.NewPCG(seedFor(seed, "C10", run, "gen"), 1))
	// ECDSA carries most proof systems: every second run
	ecs := []string{"ec-sign", "ec-sign", "ec-keygen", "ec-reshare"}
	eds := []string{"ed-keygen", "ed-sign"}
	proto := eds[run/2%len(eds)]
	if run%2 == 0 {
		proto = ecs[run/2%len(ecs)]
	}
	p := map[string]interface{}{"proto": proto, "edges": true, "countproofs": true}
	nodes := fillProtoParams(r, tier, proto, p)
	if strings.HasPrefix(proto, "ec-") {
		p["noproofs"] = false
		if proto == "ec-sign" && tier == "thorough" {
			p["signers"] = 3 + r.IntN(3) // every ordered pair of the chosen parameter sets acts as Alice/Bob
		}
		if proto == "ec-keygen" && tier == "thorough" {
			n, t := nt(r, 4)
			p["n"], p["t"] = n, t
		}
	}
	sc := &Scenario{Check: "C10", Kind: "proto", Seed: seed, Run: run, P: p}
	sc.Sched = GenSched(r, nodes, true, false)
	return sc
}
