package sim

import (
	"fmt"
	"math/rand/v2"
	"strings"

	"google.golang.org/protobuf/proto"
	"google.golang.org/protobuf/types/known/anypb"

	"github.com/bnb-chain/tss-lib/v2/tss"
)

// C06, wire level: arbitrary bytes, mutated wire strings, foreign and unknown message types and
// odd sender indices handed to UpdateFromBytes at seeded points of honest runs of all six
// protocols (also before Start and after finish). Oracle: every call returns, nothing panics,
// nothing hangs.

func init() {
	Drivers["junk"] = driveJunk
}

type bankMsg struct {
	Type  string
	Bcast bool
	Wire  []byte
}

var msgBank []bankMsg
var msgBankHeavy bool

// buildBank collects one valid wire message of every type the quick protocols emit.
func (rc *RunCtx) buildBank(heavy bool) {
	if msgBank != nil && (!heavy || msgBankHeavy) {
		return
	}
	cfgs := []map[string]interface{}{
		{"proto": "ed-keygen", "n": 2, "t": 1}, {"proto": "ed-sign", "n": 2, "t": 1, "signers": 2},
		{"proto": "ed-reshare", "n": 2, "t": 1, "oldpart": 2, "newn": 2, "newt": 1},
		{"proto": "ec-sign", "keysrc": "fixture", "signers": 3},
	}
	if heavy {
		cfgs = append(cfgs, map[string]interface{}{"proto": "ec-keygen", "n": 2, "t": 1},
			map[string]interface{}{"proto": "ec-reshare", "keysrc": "fixture", "oldpart": 3, "newn": 2, "newt": 1})
	}
	seen := map[string]bool{}
	for _, b := range msgBank {
		seen[b.Type] = true
	}
	for _, p := range cfgs {
		sub := &RunCtx{T: rc.T, Sc: &Scenario{Check: "bank", Kind: "proto", Seed: 7, P: p}, Res: &Result{Probes: map[string]int{}, Faults: map[string]int{}}}
		sub.Ch = NewChooser(1, nil, true)
		pr := sub.SetupProto("bank", true)
		if pr == nil {
			continue
		}
		pr.W.RunSchedule(&SchedConfig{Strategy: "fifo"})
		for _, n := range pr.W.Nodes {
			for _, em := range n.Emitted {
				if !seen[em.Type] {
					seen[em.Type] = true
					msgBank = append(msgBank, bankMsg{Type: em.Type, Bcast: em.Bcast, Wire: em.Wire})
				}
			}
		}
	}
	msgBankHeavy = heavy
}

var junkKinds = []string{"flip", "truncate", "extend", "random", "cross-proto", "typeurl-swap", "unknown-typeurl", "empty-any", "from-index", "from-other", "flag-and-flip", "from-index-gap"}

func driveJunk(rc *RunCtx) {
	sc := rc.Sc
	rc.buildBank(sc.Bool("heavybank"))
	pr := rc.SetupProto("main", false)
	if pr == nil {
		return
	}
	w := pr.W
	r := rand.New(rand.NewPCG(seedFor(sc.Seed, sc.Run, "junk"), 17))
	randBytes := func(n int) []byte {
		b := make([]byte, n)
		for i := range b {
			b[i] = byte(r.UintN(256))
		}
		return b
	}
	total := sc.Int("junk", 6)
	injected := 0
	var trace []string
	cfg := sc.Sched
	cfg.MaxSteps = 3000
	// an honest application tears a party down after its first error: keep delivering junk to it
	// anyway (the property says the call returns), but stop its normal traffic
	inject := func() {
		v := w.Nodes[r.IntN(len(w.Nodes))]
		var peers []*Node
		for _, n := range w.Nodes {
			if n != v {
				peers = append(peers, n)
			}
		}
		from := peers[r.IntN(len(peers))]
		fromPID := from.PID
		kind := junkKinds[r.IntN(len(junkKinds))]
		if injected == 2 && len(pr.Olds) > 0 && w.OldPartyCount > len(pr.Olds) {
			kind = "from-index-gap" // once in every resharing run in which the configured party count exceeds the old committee
		}
		// a template: an honest in-flight or delivered envelope addressed to v, else any bank message
		var tmpl *Envelope
		for _, e := range w.Inflight {
			if e.To == v.Idx {
				tmpl = e
				break
			}
		}
		if tmpl == nil {
			for _, e := range w.Delivered {
				if e.To == v.Idx && !e.Junk {
					tmpl = e
				}
			}
		}
		wire := []byte{}
		bcast := r.IntN(2) == 0
		typ := "junk"
		if tmpl != nil {
			wire = append([]byte{}, tmpl.Wire...)
			bcast = tmpl.Bcast
			typ = tmpl.Type
			from = w.Nodes[tmpl.From]
			fromPID = from.PID
		} else if len(msgBank) > 0 {
			b := msgBank[r.IntN(len(msgBank))]
			wire, bcast, typ = append([]byte{}, b.Wire...), b.Bcast, b.Type
		}
		switch kind {
		case "flip":
			for k := 0; k < 1+r.IntN(3) && len(wire) > 0; k++ {
				wire[r.IntN(len(wire))] ^= byte(1 << r.UintN(8))
			}
		case "truncate":
			if len(wire) > 0 {
				wire = wire[:r.IntN(len(wire))]
			}
		case "extend":
			wire = append(wire, randBytes(1+r.IntN(40))...)
		case "random":
			wire = randBytes([]int{0, 1, 7, 64, 1000}[r.IntN(5)])
		case "cross-proto":
			if len(msgBank) > 0 {
				b := msgBank[r.IntN(len(msgBank))]
				wire, bcast, typ = append([]byte{}, b.Wire...), b.Bcast, b.Type
			}
		case "typeurl-swap":
			// content of one type under the type URL of another
			if len(msgBank) > 1 {
				a, b := msgBank[r.IntN(len(msgBank))], msgBank[r.IntN(len(msgBank))]
				var x, y anypb.Any
				if proto.Unmarshal(a.Wire, &x) == nil && proto.Unmarshal(b.Wire, &y) == nil {
					x.Value = y.Value
					if nb, err := proto.Marshal(&x); err == nil {
						wire, bcast, typ = nb, a.Bcast, a.Type+"<-"+b.Type
					}
				}
			}
		case "unknown-typeurl":
			var x anypb.Any
			if proto.Unmarshal(wire, &x) == nil {
				x.TypeUrl = "type.googleapis.com/binance.tsslib.nope.Nope"
				if nb, err := proto.Marshal(&x); err == nil {
					wire = nb
				}
			}
		case "empty-any":
			var x anypb.Any
			if proto.Unmarshal(wire, &x) == nil {
				x.Value = nil
				if nb, err := proto.Marshal(&x); err == nil {
					wire = nb
				}
			}
		case "from-index-gap":
			// resharing by a subset of the key holders: a sender index beyond the participating old committee
			// but below the number of key holders, on a genuine old-committee message for a new member
			done := false
			if len(pr.Olds) > 0 && pr.N > len(pr.Olds) {
				for _, e := range append(append([]*Envelope{}, w.Inflight...), w.Delivered...) {
					if e.Junk || e.From >= len(pr.Olds) || e.To < len(pr.Olds) {
						continue
					}
					v, from = w.Nodes[e.To], w.Nodes[e.From]
					wire, bcast, typ = append([]byte{}, e.Wire...), e.Bcast, e.Type
					idx := len(pr.Olds) + r.IntN(pr.N-len(pr.Olds))
					fromPID = &tss.PartyID{MessageWrapper_PartyID: from.PID.MessageWrapper_PartyID, Index: idx}
					done = true
					if r.IntN(3) == 0 {
						break
					}
				}
			}
			if !done {
				fromPID = &tss.PartyID{MessageWrapper_PartyID: from.PID.MessageWrapper_PartyID, Index: 2 + r.IntN(6)}
			}
		case "from-index":
			// (small indices matter too: just beyond a committee that is smaller than the configured party count)
			idx := []int{len(w.Nodes), len(w.Nodes) + 1, 1 << 30, 1<<31 - 1, -1, 0, v.PID.Index, r.IntN(8), r.IntN(8), 2 + r.IntN(4)}[r.IntN(10)]
			fromPID = &tss.PartyID{MessageWrapper_PartyID: from.PID.MessageWrapper_PartyID, Index: idx}
		case "from-other":
			o := peers[r.IntN(len(peers))]
			fromPID = o.PID
		case "flag-and-flip":
			bcast = !bcast
			if len(wire) > 8 {
				wire[len(wire)-1-r.IntN(8)] ^= 0xff
			}
		}
		injected++
		w.Faults["junk:"+kind]++
		trace = append(trace, fmt.Sprintf("step %d %s %s->%s (%s, %d bytes, fromIdx=%d)", w.StepNo, kind, from.Name, v.Name, typ, len(wire), fromPID.Index))
		w.DeliverRaw(v, from, fromPID, wire, bcast, "junk:"+kind+":"+typ)
	}
	// junk before anything started
	if r.IntN(3) == 0 {
		inject()
	}
	for w.StepNo < cfg.MaxSteps && w.Violation == nil {
		c := w.candidates(&cfg)
		if len(c) == 0 {
			break
		}
		if injected < total && r.IntN(6) == 0 {
			inject()
			continue
		}
		idx := w.Ch.Pick(len(c), func() int { return w.strategyPick(&cfg, cfg.Strategy, c) })
		a := c[idx]
		if a.start != nil {
			w.Start(a.start)
		} else {
			ev := w.Deliver(a.env)
			if ev.Err != nil && rc.Sc.Run%2 == 0 {
				// half of the runs tear a party down after its first error, the other half keep delivering
				// the genuine traffic to it as well
				ev.Node.Silenced = true
			}
		}
	}
	// and after the run ended (finished or aborted parties)
	for injected < total && w.Violation == nil {
		inject()
	}
	if w.Violation != nil {
		site := ""
		for _, ev := range w.Events {
			if ev.Outcome.Panic != nil {
				site = PanicSite(ev.Outcome.Stack)
			}
		}
		w.Violation.Key = fmt.Sprintf("%s@%s#wire", w.Violation.Class, stripLine(site))
	}
	rc.Res.Nontrivial = injected > 0
	rc.Res.Sample = map[string]interface{}{"proto": pr.Proto, "injected": trace}
}

func genJunk(check, tier string, seed uint64, run int) *Scenario {
	r := rand.New(rand.NewPCG(seedFor(seed, check, run, "gen"), 1))
	ecEvery := 8
	proto, _ := protoForRun(r, tier, run, ecEvery)
	if strings.HasPrefix(proto, "ec-") && tier == "quick" {
		proto = []string{"ec-sign", "ec-reshare", "ec-sign", "ec-keygen"}[(run/ecEvery)%4]
	}
	p := map[string]interface{}{"proto": proto, "junk": 4 + r.IntN(8), "heavybank": tier == "thorough"}
	nodes := fillProtoParams(r, tier, proto, p)
	if proto == "ec-reshare" && tier == "quick" {
		p["fullcount"] = true // the two ECDSA resharing runs of the quick tier: a subset of the key holders takes part
	}
	sc := &Scenario{Check: check, Kind: "junk", Seed: seed, Run: run, P: p}
	sc.Sched = SchedConfig{Strategy: pickStr(r, "fifo", "random", "lifo"), PreStart: r.IntN(2) == 0, Victim: r.IntN(nodes)}
	return sc
}
