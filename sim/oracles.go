package sim

import (
	"bytes"
	"fmt"
	"math/big"

	btcec "github.com/btcsuite/btcd/btcec/v2"
	btcecdsa "github.com/btcsuite/btcd/btcec/v2/ecdsa"

	"github.com/bnb-chain/tss-lib/v2/common"
	eckg "github.com/bnb-chain/tss-lib/v2/ecdsa/keygen"
	edkg "github.com/bnb-chain/tss-lib/v2/eddsa/keygen"
)

// KeyView is the curve-independent view of one party's key data used by the oracles.
type KeyView struct {
	Owner   string
	Xi      *big.Int
	ShareID *big.Int
	Ks      []*big.Int
	BigXj   []Pt
	Pub     Pt
	// ECDSA only
	PaillierN  []*big.Int
	NTilde     []*big.Int
	H1, H2     []*big.Int
	SKN, SKP   *big.Int
	SKQ        *big.Int
	SKLambda   *big.Int
	SKPhi      *big.Int
	HasECDSA   bool
	NTildei    *big.Int
	H1i, H2i   *big.Int
}

func pt(x, y *big.Int) Pt { return Pt{X: new(big.Int).Set(x), Y: new(big.Int).Set(y)} }

func ViewEd(owner string, k *edkg.LocalPartySaveData) (*KeyView, error) {
	if k == nil || k.Xi == nil || k.ShareID == nil || k.EDDSAPub == nil {
		return nil, fmt.Errorf("%s: key data has nil fields", owner)
	}
	v := &KeyView{Owner: owner, Xi: k.Xi, ShareID: k.ShareID, Ks: k.Ks, Pub: pt(k.EDDSAPub.X(), k.EDDSAPub.Y())}
	for j, b := range k.BigXj {
		if b == nil {
			return nil, fmt.Errorf("%s: BigXj[%d] is nil", owner, j)
		}
		v.BigXj = append(v.BigXj, pt(b.X(), b.Y()))
	}
	return v, nil
}

func ViewEC(owner string, k *eckg.LocalPartySaveData) (*KeyView, error) {
	if k == nil || k.Xi == nil || k.ShareID == nil || k.ECDSAPub == nil {
		return nil, fmt.Errorf("%s: key data has nil fields", owner)
	}
	v := &KeyView{Owner: owner, Xi: k.Xi, ShareID: k.ShareID, Ks: k.Ks, Pub: pt(k.ECDSAPub.X(), k.ECDSAPub.Y()), HasECDSA: true}
	for j, b := range k.BigXj {
		if b == nil {
			return nil, fmt.Errorf("%s: BigXj[%d] is nil", owner, j)
		}
		v.BigXj = append(v.BigXj, pt(b.X(), b.Y()))
	}
	for j := range k.PaillierPKs {
		if k.PaillierPKs[j] == nil || k.NTildej[j] == nil || k.H1j[j] == nil || k.H2j[j] == nil {
			return nil, fmt.Errorf("%s: Paillier/ring-Pedersen entry %d is nil", owner, j)
		}
		v.PaillierN = append(v.PaillierN, k.PaillierPKs[j].N)
		v.NTilde = append(v.NTilde, k.NTildej[j])
		v.H1 = append(v.H1, k.H1j[j])
		v.H2 = append(v.H2, k.H2j[j])
	}
	if k.PaillierSK == nil {
		return nil, fmt.Errorf("%s: PaillierSK is nil", owner)
	}
	v.SKN, v.SKP, v.SKQ, v.SKLambda, v.SKPhi = k.PaillierSK.N, k.PaillierSK.P, k.PaillierSK.Q, k.PaillierSK.LambdaN, k.PaillierSK.PhiN
	v.NTildei, v.H1i, v.H2i = k.NTildei, k.H1i, k.H2i
	return v, nil
}

func eqInts(a, b []*big.Int) bool {
	if len(a) != len(b) {
		return false
	}
	for i := range a {
		if a[i] == nil || b[i] == nil || a[i].Cmp(b[i]) != 0 {
			return false
		}
	}
	return true
}

// CheckSharing is the C03 oracle: the views are a consistent (t,n) sharing of one key.
// exhaustive=false samples subsets (first 40 of each size) instead of all.
func CheckSharing(g Group, views []*KeyView, t int, maxSubsets int) error {
	n := len(views)
	if n == 0 {
		return fmt.Errorf("no key data")
	}
	q := g.Order()
	v0 := views[0]
	if len(v0.Ks) != n || len(v0.BigXj) != n {
		return fmt.Errorf("%s: holds %d ids / %d public shares for %d parties", v0.Owner, len(v0.Ks), len(v0.BigXj), n)
	}
	for _, v := range views {
		if !eqInts(v.Ks, v0.Ks) {
			return fmt.Errorf("share ids differ between %s and %s", v0.Owner, v.Owner)
		}
		if !PtEq(v.Pub, v0.Pub) {
			return fmt.Errorf("group public key differs between %s and %s", v0.Owner, v.Owner)
		}
		if len(v.BigXj) != n {
			return fmt.Errorf("%s: %d public shares", v.Owner, len(v.BigXj))
		}
		for j := range v.BigXj {
			if !PtEq(v.BigXj[j], v0.BigXj[j]) {
				return fmt.Errorf("public share point %d differs between %s and %s", j, v0.Owner, v.Owner)
			}
		}
		if v.HasECDSA {
			if !eqInts(v.PaillierN, v0.PaillierN) || !eqInts(v.NTilde, v0.NTilde) || !eqInts(v.H1, v0.H1) || !eqInts(v.H2, v0.H2) {
				return fmt.Errorf("Paillier / ring-Pedersen public view differs between %s and %s", v0.Owner, v.Owner)
			}
		}
	}
	if !g.OnCurve(v0.Pub) || (v0.Pub.Inf) {
		return fmt.Errorf("group public key is not a valid curve point")
	}
	// distinct non-zero ids mod q
	for i := range v0.Ks {
		ki := new(big.Int).Mod(v0.Ks[i], q)
		if ki.Sign() == 0 {
			return fmt.Errorf("share id %d is 0 mod q", i)
		}
		for j := 0; j < i; j++ {
			if ki.Cmp(new(big.Int).Mod(v0.Ks[j], q)) == 0 {
				return fmt.Errorf("share ids %d and %d coincide mod q", i, j)
			}
		}
	}
	// each party: own index, Xi*G == BigXj[idx]
	idxOf := make([]int, n)
	for i, v := range views {
		idx := -1
		for j, k := range v.Ks {
			if k.Cmp(v.ShareID) == 0 {
				idx = j
			}
		}
		if idx < 0 {
			return fmt.Errorf("%s: ShareID not among the ids", v.Owner)
		}
		idxOf[i] = idx
		// (resharing leaves the sum of the received shares unreduced; the property speaks about the
		// share's image, so only the sign is checked here)
		if v.Xi.Sign() < 0 {
			return fmt.Errorf("%s: negative secret share", v.Owner)
		}
		if !PtEq(GMul(g, v.Xi, g.Base()), v.BigXj[idx]) {
			return fmt.Errorf("%s: secret share times generator differs from its public share point", v.Owner)
		}
		if v.HasECDSA {
			if v.SKN == nil || v.SKP == nil || v.SKQ == nil {
				return fmt.Errorf("%s: Paillier private key incomplete", v.Owner)
			}
			if new(big.Int).Mul(v.SKP, v.SKQ).Cmp(v.SKN) != 0 {
				return fmt.Errorf("%s: Paillier P*Q != N", v.Owner)
			}
			for _, o := range views {
				if o.PaillierN[idx].Cmp(v.SKN) != 0 {
					return fmt.Errorf("%s: Paillier private key does not match the modulus %s recorded for it", v.Owner, o.Owner)
				}
				if o.NTilde[idx].Cmp(v.NTildei) != 0 || o.H1[idx].Cmp(v.H1i) != 0 || o.H2[idx].Cmp(v.H2i) != 0 {
					return fmt.Errorf("%s: own ring-Pedersen parameters differ from what %s recorded for it", v.Owner, o.Owner)
				}
			}
			pm1 := new(big.Int).Sub(v.SKP, big.NewInt(1))
			qm1 := new(big.Int).Sub(v.SKQ, big.NewInt(1))
			phi := new(big.Int).Mul(pm1, qm1)
			if v.SKPhi == nil || v.SKPhi.Cmp(phi) != 0 {
				return fmt.Errorf("%s: Paillier PhiN mismatch", v.Owner)
			}
			gcd := new(big.Int).GCD(nil, nil, pm1, qm1)
			lcm := new(big.Int).Div(phi, gcd)
			if v.SKLambda == nil || v.SKLambda.Cmp(lcm) != 0 {
				return fmt.Errorf("%s: Paillier LambdaN mismatch", v.Owner)
			}
		}
	}
	// every (t+1)-subset interpolates the public shares to the public key
	for _, s := range subsets(n, t+1, maxSubsets) {
		xs := make([]*big.Int, len(s))
		ps := make([]Pt, len(s))
		for i, j := range s {
			xs[i], ps[i] = v0.Ks[j], v0.BigXj[j]
		}
		if !PtEq(InterpolateExp(g, xs, ps), v0.Pub) {
			return fmt.Errorf("public share points of subset %v do not interpolate to the group public key (degree > t or wrong constant term)", s)
		}
	}
	if t+2 <= n {
		for _, s := range subsets(n, t+2, maxSubsets) {
			xs := make([]*big.Int, len(s))
			ps := make([]Pt, len(s))
			for i, j := range s {
				xs[i], ps[i] = v0.Ks[j], v0.BigXj[j]
			}
			if !PtEq(InterpolateExp(g, xs, ps), v0.Pub) {
				return fmt.Errorf("public share points of (t+2)-subset %v do not lie on a degree-t polynomial", s)
			}
		}
	}
	// the secret shares of any t+1 parties present interpolate to a scalar whose image is the key
	if len(views) >= t+1 {
		for _, s := range subsets(len(views), t+1, maxSubsets) {
			xs := make([]*big.Int, len(s))
			for i, j := range s {
				xs[i] = views[j].ShareID
			}
			ls := LagrangeAtZero(xs, q)
			sec := big.NewInt(0)
			for i, j := range s {
				sec.Add(sec, new(big.Int).Mul(ls[i], views[j].Xi))
			}
			sec.Mod(sec, q)
			if !PtEq(GMul(g, sec, g.Base()), v0.Pub) {
				return fmt.Errorf("secret shares of subset %v do not interpolate to the private key of the group public key", s)
			}
		}
	}
	return nil
}

// ---- signatures ------------------------------------------------------------------------------

// CheckECDSASig is the C01 output oracle. digest is the integer given to the parties.
func CheckECDSASig(sd *common.SignatureData, pub Pt, digest *big.Int, fullBytesLen int) error {
	if sd == nil {
		return fmt.Errorf("nil signature data")
	}
	if len(sd.R) != 32 || len(sd.S) != 32 {
		return fmt.Errorf("R/S not fixed-width: len(R)=%d len(S)=%d", len(sd.R), len(sd.S))
	}
	if !bytes.Equal(sd.Signature, append(append([]byte{}, sd.R...), sd.S...)) {
		return fmt.Errorf("Signature != R||S")
	}
	r := new(big.Int).SetBytes(sd.R)
	s := new(big.Int).SetBytes(sd.S)
	half := new(big.Int).Rsh(Secp.n, 1)
	if s.Cmp(half) > 0 {
		return fmt.Errorf("S is not in the lower half of the order")
	}
	if s.Sign() == 0 || r.Sign() == 0 {
		return fmt.Errorf("zero R or S")
	}
	// echoed message
	if new(big.Int).SetBytes(sd.M).Cmp(digest) != 0 {
		return fmt.Errorf("echoed message %x does not equal the digest %x", sd.M, digest)
	}
	if fullBytesLen > 0 {
		if len(sd.M) != fullBytesLen {
			return fmt.Errorf("echoed message has %d bytes, full length %d requested", len(sd.M), fullBytesLen)
		}
	} else if !bytes.Equal(sd.M, digest.Bytes()) {
		return fmt.Errorf("echoed message %x is not the minimal encoding of the digest", sd.M)
	}
	// harness verifier
	if !ECDSAVerify(pub, digest, r, s) {
		return fmt.Errorf("signature does not verify under the group key (harness verifier)")
	}
	// btcec verifier, on a 32-byte digest
	var d32 [32]byte
	digest.FillBytes(d32[:])
	var fx, fy btcec.FieldVal
	fx.SetByteSlice(pub.X.Bytes())
	fy.SetByteSlice(pub.Y.Bytes())
	pk := btcec.NewPublicKey(&fx, &fy)
	var rs, ss btcec.ModNScalar
	rs.SetByteSlice(sd.R)
	ss.SetByteSlice(sd.S)
	if !btcecdsa.NewSignature(&rs, &ss).Verify(d32[:], pk) {
		return fmt.Errorf("signature does not verify under the group key (btcec verifier)")
	}
	// recovery byte
	if len(sd.SignatureRecovery) != 1 {
		return fmt.Errorf("recovery byte missing")
	}
	Q, ok := ECDSARecover(digest, r, s, sd.SignatureRecovery[0])
	if !ok || !PtEq(Q, pub) {
		return fmt.Errorf("recovery byte %d does not recover the group public key", sd.SignatureRecovery[0])
	}
	return nil
}

// CheckEdDSASig is the C02 output oracle. msgInt is the integer handed to the parties.
func CheckEdDSASig(sd *common.SignatureData, pub Pt, msgInt *big.Int, fullBytesLen int) error {
	if sd == nil {
		return fmt.Errorf("nil signature data")
	}
	if len(sd.Signature) != 64 {
		return fmt.Errorf("signature has %d bytes", len(sd.Signature))
	}
	var want []byte
	if fullBytesLen > 0 {
		want = make([]byte, fullBytesLen)
		msgInt.FillBytes(want)
	} else {
		want = msgInt.Bytes()
	}
	if !bytes.Equal(sd.M, want) {
		return fmt.Errorf("echoed message %x differs from the message %x", sd.M, want)
	}
	if !EdVerify(pub, sd.M, sd.Signature) {
		return fmt.Errorf("signature does not verify with crypto/ed25519 over the echoed message")
	}
	// R, S fields consistent with the halves (R, S are big-endian minimal encodings of the
	// little-endian halves read as integers)
	rev := func(b []byte) []byte {
		o := make([]byte, len(b))
		for i := range b {
			o[i] = b[len(b)-1-i]
		}
		return o
	}
	if new(big.Int).SetBytes(rev(sd.Signature[:32])).Cmp(new(big.Int).SetBytes(sd.R)) != 0 {
		return fmt.Errorf("R field inconsistent with the signature")
	}
	if new(big.Int).SetBytes(rev(sd.Signature[32:])).Cmp(new(big.Int).SetBytes(sd.S)) != 0 {
		return fmt.Errorf("S field inconsistent with the signature")
	}
	return nil
}

func sigEqual(a, b *common.SignatureData) bool {
	return bytes.Equal(a.Signature, b.Signature) && bytes.Equal(a.R, b.R) && bytes.Equal(a.S, b.S) && bytes.Equal(a.M, b.M) && bytes.Equal(a.SignatureRecovery, b.SignatureRecovery)
}
