package sim

import (
	"fmt"
	"math/rand/v2"
	"reflect"
	"runtime"
	"sort"
	"strings"
	"sync"
	"testing/synctest"
	"time"

	"github.com/anishathalye/porcupine"

	"github.com/bnb-chain/tss-lib/v2/tss"
)

// C09 — the party update API is safe to call from many goroutines.
// (a) "conc": caller goroutines of the parties are the nodes; the verif yield hook parks every caller
//     before it takes the party mutex and after it released it; the Chooser decides who proceeds.
// (b) "race": the same workloads with real goroutines, seeded Gosched bursts at the hook, under the
//     Go race detector (separate -race binary). The schedule is NOT simulator-decided there, on
//     purpose: a controller that parks and releases through channels would add happens-before edges
//     exactly where the detector must look.

func init() {
	Drivers["conc"] = driveConc
	Drivers["race"] = driveRace
	Gens["C09"] = genC09
}

func genC09(tier string, seed uint64, run int) *Scenario {
	r := rand.New(rand.NewPCG(seedFor(seed, "C09", run, "gen"), 1))
	race := strings.HasSuffix(tier, "-race")
	base := strings.TrimSuffix(tier, "-race")
	ecEvery := 9
	if race {
		ecEvery = 4
	}
	proto, _ := protoForRun(r, base, run, ecEvery)
	if strings.HasPrefix(proto, "ec-") && base == "quick" {
		proto = []string{"ec-sign", "ec-sign", "ec-keygen"}[run/ecEvery%3]
		if race {
			// the race batch of the quick tier also has ECDSA resharing (its round-4 workers share round state)
			proto = []string{"ec-reshare", "ec-sign", "ec-sign", "ec-keygen"}[run/ecEvery%4]
		}
	}
	p := map[string]interface{}{"proto": proto, "probes": 1 + r.IntN(3), "dups": r.IntN(3), "junk": r.IntN(2)}
	fillProtoParams(r, base, proto, p)
	kind := "conc"
	if race {
		kind = "race"
		p["junk"] = 1 // refused calls (undecodable bytes, foreign sender index) overlap the honest ones in every race run
		if strings.HasPrefix(proto, "ec-") && (run/ecEvery)%2 == 0 {
			p["shortssid"] = true // slices with spare capacity: a session id with a leading zero byte (ssid.go)
			if proto == "ec-reshare" {
				p["newn"], p["newt"], p["noproofs"] = 3, 1+r.IntN(2), false
			}
		}
	}
	return &Scenario{Check: "C09", Kind: kind, Seed: seed, Run: run, P: p, Sched: SchedConfig{Strategy: "random", PreStart: r.IntN(2) == 0}}
}

func basePartyOf(p tss.Party) *tss.BaseParty {
	v := reflect.ValueOf(p)
	if v.Kind() == reflect.Ptr {
		v = v.Elem()
	}
	f := v.FieldByName("BaseParty")
	if !f.IsValid() {
		return nil
	}
	bp, _ := f.Interface().(*tss.BaseParty)
	return bp
}

type call struct {
	id      int
	node    *Node
	kind    string // start | deliver | waiting | junk
	env     *Envelope
	wire    []byte
	flag    bool
	fromPID *tss.PartyID

	spawned  bool
	parkedAt string
	resume   chan struct{}
	done     bool
	ok       bool
	err      *tss.Error
	waiting  []string
	roundStr string
	panicVal interface{}
	invoke   int64
	ret      int64
}

type opIn struct {
	Kind   string
	Sender int
	Type   string
	Valid  bool
}

// concurrent run of a whole protocol: waves of concurrent calls, lock order decided by the Chooser
func driveConc(rc *RunCtx) {
	sc := rc.Sc
	pr := rc.SetupProto("main", false)
	if pr == nil {
		return
	}
	w := pr.W
	st := w.St
	r := rand.New(rand.NewPCG(seedFor(sc.Seed, sc.Run, "conc"), 41))
	byBase := map[*tss.BaseParty]*Node{}
	for _, n := range w.Nodes {
		bp := basePartyOf(n.Party)
		if bp == nil {
			rc.Fail("harness", "cannot find the BaseParty of %s", n.Name)
			return
		}
		byBase[bp] = n
	}
	var mu sync.Mutex // protects the maps below against the hook running in caller goroutines
	byGoid := map[int64]*call{}
	holder := map[*Node]*call{}
	var seq int64
	var lockTrace []string
	tss.SimYield = func(p *tss.BaseParty, point string) {
		mu.Lock()
		c := byGoid[goid()]
		mu.Unlock()
		if c == nil {
			return // not one of ours (prelude etc.)
		}
		n := byBase[p]
		if point == "unlock" {
			mu.Lock()
			if holder[n] == c {
				delete(holder, n)
			}
			mu.Unlock()
			st.SetWorker(false)
		}
		c.parkedAt = point
		<-c.resume
		if point == "lock" {
			st.SetWorker(true)
		}
	}
	defer func() { tss.SimYield = nil }()

	var history []*call
	nextID := 0
	newCall := func(n *Node, kind string, e *Envelope) *call {
		nextID++
		c := &call{id: nextID, node: n, kind: kind, env: e, resume: make(chan struct{})}
		if e != nil {
			c.wire, c.flag, c.fromPID = e.Wire, e.Bcast, w.Nodes[e.From].PID
		}
		return c
	}
	runCall := func(c *call) {
		go func() {
			mu.Lock()
			byGoid[goid()] = c
			seq++
			c.invoke = seq
			mu.Unlock()
			defer func() {
				if x := recover(); x != nil {
					c.panicVal = x
				}
				mu.Lock()
				seq++
				c.ret = seq
				if holder[c.node] == c {
					delete(holder, c.node)
				}
				mu.Unlock()
				c.parkedAt = ""
				c.done = true
			}()
			switch c.kind {
			case "start":
				c.err = c.node.Party.Start()
				c.ok = c.err == nil
			case "deliver", "junk":
				c.ok, c.err = c.node.Party.UpdateFromBytes(c.wire, c.fromPID, c.flag)
			case "waiting":
				ids := c.node.Party.WaitingFor()
				for _, id := range ids {
					for _, o := range w.Nodes {
						if id != nil && string(o.PID.Key) == string(id.Key) {
							c.waiting = append(c.waiting, o.Name)
						}
					}
				}
				sort.Strings(c.waiting)
			}
		}()
	}
	waves := 0
	for waves < 200 && !rc.Failed() {
		// build the wave: every pending start and every deliverable envelope, plus probes
		var calls []*call
		for _, n := range w.Nodes {
			if !n.Started {
				n.Started = true
				calls = append(calls, newCall(n, "start", nil))
			}
		}
		infl := w.Inflight
		w.Inflight = nil
		for _, e := range infl {
			calls = append(calls, newCall(w.Nodes[e.To], "deliver", e))
			w.Delivered = append(w.Delivered, e)
			if r.IntN(10) < sc.Int("dups", 1) {
				calls = append(calls, newCall(w.Nodes[e.To], "deliver", e))
				w.Faults["duplicate"]++
			}
		}
		if len(calls) == 0 {
			break
		}
		for _, n := range w.Nodes {
			for k := 0; k < sc.Int("probes", 1); k++ {
				if r.IntN(2) == 0 {
					calls = append(calls, newCall(n, "waiting", nil))
				}
			}
			if sc.Int("junk", 0) > 0 && r.IntN(4) == 0 && len(infl) > 0 {
				e := infl[r.IntN(len(infl))]
				c := newCall(n, "junk", nil)
				b := append([]byte{}, e.Wire...)
				b[len(b)/2] ^= 0x40
				c.wire, c.flag = b[:len(b)-1-r.IntN(3)], e.Bcast
				for _, o := range w.Nodes {
					if o != n {
						c.fromPID = o.PID
					}
				}
				calls = append(calls, c)
				w.Faults["malformed_bytes"]++
			}
		}
		r.Shuffle(len(calls), func(i, j int) { calls[i], calls[j] = calls[j], calls[i] })
		waves++
		st.BeginStep()
		// controller
		pending := calls
		for {
			synctest.Wait()
			if st.ServeParked() {
				continue
			}
			// a caller that panicked inside the critical section leaves the party mutex locked for ever:
			// report it now, before anybody else is sent to that mutex
			for _, c := range calls {
				if c.panicVal != nil {
					rc.Fail("panic", "%s on %s panicked under concurrent calls (lock order so far: %v): %v", c.kind, c.node.Name, lockTrace, c.panicVal)
					return
				}
			}
			var elig []*call
			alldone := len(pending) == 0
			for _, c := range calls {
				if !c.spawned {
					continue
				}
				if !c.done {
					alldone = false
				}
				if c.done {
					continue
				}
				switch c.parkedAt {
				case "unlock":
					elig = append(elig, c)
				case "lock":
					if holder[c.node] == nil {
						elig = append(elig, c)
					}
				}
			}
			if alldone {
				break
			}
			// actions: spawn the next pending call, or release an eligible caller
			k := len(elig)
			if len(pending) > 0 {
				k++
			}
			if k == 0 {
				var stuck []string
				for _, c := range calls {
					if c.spawned && !c.done {
						stuck = append(stuck, fmt.Sprintf("%s(%s)@%s", c.kind, c.node.Name, c.parkedAt))
					}
				}
				rc.Fail("deadlock", "concurrent callers are stuck: %v", stuck)
				return
			}
			idx := rc.Ch.Pick(k, func() int { return rc.Ch.Rng().IntN(k) })
			if idx == len(elig) {
				c := pending[0]
				pending = pending[1:]
				c.spawned = true
				runCall(c)
				continue
			}
			c := elig[idx]
			if c.parkedAt == "lock" {
				holder[c.node] = c
				lockTrace = append(lockTrace, fmt.Sprintf("%s:%s#%d", c.node.Name, c.kind, c.id))
			}
			c.parkedAt = ""
			c.resume <- struct{}{}
		}
		history = append(history, calls...)
		for _, c := range calls {
			if c.panicVal != nil {
				rc.Fail("panic", "%s on %s panicked under concurrent calls: %v", c.kind, c.node.Name, c.panicVal)
				return
			}
			if c.err != nil && c.kind != "junk" {
				rc.Fail("engine-error", "%s on %s returned an error although every message is honest: %s", c.kind, c.node.Name, errString(c.err))
				return
			}
		}
		w.StepNo++
		for _, n := range w.Nodes {
			w.drain(n, nil)
			if len(n.Results) > 1 {
				rc.Fail("double-result", "node %s put %d values on its end channel", n.Name, len(n.Results))
				return
			}
		}
		w.Logf("wave %d: %d calls", waves, len(calls))
	}
	if rc.Failed() {
		return
	}
	if e := w.AllFinished(); e != "" {
		rc.Fail("not-finished", "after concurrent delivery of every message: %s", e)
		return
	}
	if !pr.CheckCompleted(30) {
		return
	}
	for _, l := range lockTrace {
		w.Logf("lock %s", l)
	}
	rc.Res.Probes["lock_decisions"] += len(lockTrace)
	rc.Res.Probes["concurrent_calls"] += len(history)
	rc.Res.Nontrivial = len(lockTrace) > 0
	// linearizability of Update / WaitingFor against the reference model, per party, outside the bubble
	model := Models[modelName(pr.Proto)]
	names := make([]string, len(w.Nodes))
	for i, n := range w.Nodes {
		names[i] = n.Name
	}
	rc.After = append(rc.After, func() {
		for _, n := range w.Nodes {
			var ops []porcupine.Operation
			for _, c := range history {
				if c.node != n {
					continue
				}
				in := opIn{Kind: c.kind}
				if c.kind == "deliver" {
					row := model.Row(c.env.Type)
					in.Sender, in.Type = c.env.From, c.env.Type
					in.Valid = row != nil && row.Bcast == c.flag
				}
				ops = append(ops, porcupine.Operation{ClientId: c.id % 64, Input: in, Call: c.invoke, Output: strings.Join(c.waiting, ","), Return: c.ret})
			}
			if len(ops) > 60 {
				rc.Res.Probes["linearizability_skipped_long_history"]++
				continue
			}
			pm := porcupine.Model{
				Init: func() interface{} { return "" },
				Step: func(state, input, output interface{}) (bool, interface{}) {
					s := state.(string)
					in := input.(opIn)
					switch in.Kind {
					case "start":
						return true, s + ";S"
					case "deliver":
						if !in.Valid {
							return true, s
						}
						k := ";" + dkey(in.Sender, in.Type)
						if strings.Contains(s, k) {
							return true, s
						}
						parts := append(strings.Split(strings.TrimPrefix(s, ";"), ";"), k[1:])
						sort.Strings(parts)
						return true, ";" + strings.Join(parts, ";")
					case "waiting":
						return waitingLegal(w, model, n, s, output.(string)), s
					}
					return true, s
				},
				Equal: func(a, b interface{}) bool { return a.(string) == b.(string) },
			}
			res := porcupine.CheckOperationsTimeout(pm, ops, 20*time.Second)
			switch res {
			case porcupine.Illegal:
				var desc []string
				for _, o := range ops {
					desc = append(desc, fmt.Sprintf("[%d,%d] %+v -> %q", o.Call, o.Return, o.Input, o.Output))
				}
				rc.Fail("not-linearizable", "party %s: the history of concurrent Update/WaitingFor calls has no sequential explanation: %s", n.Name, strings.Join(desc, "; "))
			case porcupine.Unknown:
				rc.Res.Probes["linearizability_inconclusive"]++
			default:
				rc.Res.Probes["linearizable_histories"]++
			}
		}
		if rc.Res.Violation != nil {
			rc.Res.Verdict = "violation"
		}
	})
	rc.Res.Sample = map[string]interface{}{"proto": pr.Proto, "waves": waves, "calls": len(history), "lock_order": lockTrace}
	_ = names
}

// waitingLegal: out equals the awaited set of some round the party may be in given the delivered
// set encoded in state (a party may lag behind the model, never be ahead of it).
func waitingLegal(w *World, m *ProtoModel, n *Node, state, out string) bool {
	started := strings.Contains(state, ";S")
	has := func(sender int, typ string) bool { return strings.Contains(state, ";"+dkey(sender, typ)+";") || strings.HasSuffix(state, ";"+dkey(sender, typ)) }
	if !started {
		return out == ""
	}
	met := func(r int) bool {
		for _, nd := range m.Needs[r][role(n)] {
			for _, s := range w.needSenders(n, nd) {
				if !has(s.Idx, nd.Type) {
					return false
				}
			}
		}
		return true
	}
	for r := 1; r <= m.Final; r++ {
		set := map[string]bool{}
		for _, nd := range m.Needs[r][role(n)] {
			for _, s := range w.needSenders(n, nd) {
				if !has(s.Idx, nd.Type) {
					set[s.Name] = true
				}
			}
		}
		var names []string
		for k := range set {
			names = append(names, k)
		}
		sort.Strings(names)
		// right after Start and before the first update a party may list itself among the awaited
		// (the flags of the round are filled in by the first update): accept that superset
		if strings.Join(names, ",") == out || strings.Join(addSorted(names, n.Name), ",") == out {
			return true
		}
		if r == m.Final || !met(r) {
			break
		}
	}
	return out == "" && func() bool { // finished
		for r := 1; r < m.Final; r++ {
			if !met(r) {
				return false
			}
		}
		return true
	}()
}

func addSorted(xs []string, x string) []string {
	out := append(append([]string{}, xs...), x)
	sort.Strings(out)
	return out
}

// ---- (b) race-detector mode --------------------------------------------------------------------------

func driveRace(rc *RunCtx) {
	sc := rc.Sc
	LibConcurrency = 16
	defer func() { LibConcurrency = 2 }()
	pr := rc.SetupProto("main", false)
	if pr == nil {
		return
	}
	w := pr.W
	w.St.RaceMode = true
	r := rand.New(rand.NewPCG(seedFor(sc.Seed, sc.Run, "race"), 43))
	var ymu sync.Mutex
	yr := rand.New(rand.NewPCG(seedFor(sc.Seed, sc.Run, "yield"), 47))
	tss.SimYield = func(p *tss.BaseParty, point string) {
		ymu.Lock()
		k := yr.IntN(4)
		ymu.Unlock()
		for i := 0; i < k; i++ {
			runtime.Gosched()
		}
	}
	defer func() { tss.SimYield = nil }()
	total := 0
	for wave := 0; wave < 300; wave++ {
		type job struct {
			n    *Node
			kind string
			e    *Envelope
		}
		var jobs []job
		for _, n := range w.Nodes {
			if !n.Started {
				n.Started = true
				jobs = append(jobs, job{n, "start", nil})
			}
		}
		infl := w.Inflight
		w.Inflight = nil
		for _, e := range infl {
			jobs = append(jobs, job{w.Nodes[e.To], "deliver", e})
			if r.IntN(10) < sc.Int("dups", 1) {
				jobs = append(jobs, job{w.Nodes[e.To], "deliver", e})
			}
		}
		if len(jobs) == 0 {
			break
		}
		for _, n := range w.Nodes {
			for k := 0; k < sc.Int("probes", 1); k++ {
				jobs = append(jobs, job{n, "waiting", nil})
			}
			if sc.Int("junk", 0) > 0 && len(infl) > 0 && r.IntN(3) == 0 {
				e := *infl[r.IntN(len(infl))]
				e.Wire = append([]byte{}, e.Wire[:len(e.Wire)/2]...)
				e.To = n.Idx
				jobs = append(jobs, job{n, "junk", &e})
			}
			if sc.Int("junk", 0) > 0 && len(infl) > 0 && r.IntN(2) == 0 {
				// bytes that decode, refused for their sender index: the refusal path of a well-formed message
				e := *infl[r.IntN(len(infl))]
				e.To = n.Idx
				jobs = append(jobs, job{n, "junk-from", &e})
			}
		}
		r.Shuffle(len(jobs), func(i, j int) { jobs[i], jobs[j] = jobs[j], jobs[i] })
		errs := make([]*tss.Error, len(jobs))
		var wg sync.WaitGroup
		for i, j := range jobs {
			wg.Add(1)
			go func(i int, j job) {
				defer wg.Done()
				switch j.kind {
				case "start":
					errs[i] = j.n.Party.Start()
				case "deliver", "junk":
					_, errs[i] = j.n.Party.UpdateFromBytes(j.e.Wire, w.Nodes[j.e.From].PID, j.e.Bcast)
				case "junk-from":
					from := w.Nodes[j.e.From].PID
					_, errs[i] = j.n.Party.UpdateFromBytes(j.e.Wire, &tss.PartyID{MessageWrapper_PartyID: from.MessageWrapper_PartyID, Index: 1000 + from.Index}, j.e.Bcast)
				case "waiting":
					// (String()/Running() are not among the entry points the property lists: not called here)
					// the answer is read after the call returned, as a monitoring goroutine would
					for _, p := range j.n.Party.WaitingFor() {
						if p != nil && p.Index < 0 {
							errs[i] = j.n.Party.WrapError(fmt.Errorf("WaitingFor returned a party id with index %d", p.Index))
						}
					}
				}
			}(i, j)
		}
		wg.Wait()
		total += len(jobs)
		for i, j := range jobs {
			if errs[i] != nil && !strings.HasPrefix(j.kind, "junk") {
				rc.Fail("engine-error", "%s on %s returned an error although every message is honest: %s", j.kind, j.n.Name, errString(errs[i]))
				return
			}
		}
		for _, n := range w.Nodes {
			w.drain(n, nil)
			if len(n.Results) > 1 {
				rc.Fail("double-result", "node %s put %d values on its end channel", n.Name, len(n.Results))
				return
			}
		}
	}
	if e := w.AllFinished(); e != "" {
		rc.Fail("not-finished", "after concurrent delivery of every message: %s", e)
		return
	}
	if !pr.CheckCompleted(30) {
		return
	}
	rc.Res.Probes["race_mode_calls"] += total
	rc.Res.Nontrivial = true
	rc.Res.LogHash = ""
	rc.Res.Sample = map[string]interface{}{"proto": pr.Proto, "mode": "race detector, real goroutines", "calls": total}
}
