package sim

import (
	"os"
	"runtime"
	"testing"

	"github.com/ipfs/go-log"
)

func TestMain(m *testing.M) {
	// workers are single-threaded so that goroutine ids are monotone in creation order;
	// parallelism comes from running many worker processes (VERIF_PROCS can override for
	// the determinism self-test).
	if os.Getenv("VERIF_GOMAXPROCS") == "" {
		runtime.GOMAXPROCS(1)
	}
	_ = log.SetLogLevel("tss-lib", "fatal")
	os.Exit(m.Run())
}

func TestWorker(t *testing.T) { WorkerMain(t) }
