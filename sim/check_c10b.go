package sim

import (
	"fmt"
	"math/big"
	"math/rand/v2"

	"github.com/bnb-chain/tss-lib/v2/crypto"
	"github.com/bnb-chain/tss-lib/v2/crypto/dlnproof"
	"github.com/bnb-chain/tss-lib/v2/crypto/facproof"
	"github.com/bnb-chain/tss-lib/v2/crypto/modproof"
	"github.com/bnb-chain/tss-lib/v2/crypto/mta"
	"github.com/bnb-chain/tss-lib/v2/crypto/paillier"
	"github.com/bnb-chain/tss-lib/v2/crypto/schnorr"
	"github.com/bnb-chain/tss-lib/v2/tss"
)

// C10, second half: prover -> wire parts -> parser -> verifier exchanges for every proof system,
// with the prover's randomness coming from the simulated entropy source (modes uniform and edges),
// witnesses at the extremes of their range, every vendored parameter set and several session
// strings. A two-message exchange has no scheduling freedom: this half is labelled as such in the
// evidence; its point is the entropy seam and the wire encoding.

func init() {
	Drivers["proof-roundtrip"] = driveProofRoundtrip
}

func genProofRoundtrip(seed uint64, run int) *Scenario {
	systems := []string{"schnorr-ec", "schnorr-ed", "schnorr-v", "dln", "paillier-key", "mod", "fac", "alice", "bob", "bob-wc", "schnorr-v-ed"}
	wits := []string{"zero", "one", "qm1", "rand", "lz"}
	sessions := []string{"empty", "short", "long"}
	return &Scenario{Check: "C10", Kind: "proof-roundtrip", Seed: seed, Run: run, P: map[string]interface{}{
		"system": systems[run%len(systems)], "wit": wits[(run/len(systems))%len(wits)], "session": sessions[(run/50)%3],
		"params": (run / 7) % 5, "params2": (run/7 + 1 + run/35) % 5, "edges": run%2 == 1}}
}

func driveProofRoundtrip(rc *RunCtx) {
	sc := rc.Sc
	fx, err := LoadECFixtures()
	if err != nil {
		rc.Fail("harness", "%v", err)
		return
	}
	system, wit := sc.Str("system", "schnorr-ec"), sc.Str("wit", "rand")
	A := fx[sc.Int("params", 0)]
	Bp := fx[sc.Int("params2", 1)]
	if sc.Int("params", 0) == sc.Int("params2", 1) {
		Bp = fx[(sc.Int("params", 0)+1)%5]
	}
	r := rand.New(rand.NewPCG(seedFor(sc.Seed, sc.Run, "proofs"), 59))
	st := &Stepper{Seed: rc.EntropySeed("proofs"), Ch: NewChooser(0, nil, true)}
	st.Edges = sc.Bool("edges")
	rd := st.NewNodeRand("prover", "rand")
	var session []byte
	switch sc.Str("session", "short") {
	case "short":
		session = []byte("session-1")
	case "long":
		session = make([]byte, 300)
		for i := range session {
			session[i] = byte(r.UintN(256))
		}
	}
	// the verifier holds its own copy of the session bytes (another allocation: for the empty session the
	// prover's is a nil slice and the verifier's an allocated slice of length 0, the same byte string)
	vsession := append([]byte{}, session...)
	q := Secp.n
	ec := tss.S256()
	witness := func(order *big.Int) *big.Int {
		switch wit {
		case "zero":
			return big.NewInt(0)
		case "one":
			return big.NewInt(1)
		case "qm1":
			return new(big.Int).Sub(order, big.NewInt(1))
		case "lz":
			b := make([]byte, 29)
			for i := range b {
				b[i] = byte(r.UintN(256))
			}
			return new(big.Int).SetBytes(b) // a 256-bit scalar whose encoding has three leading zero bytes
		}
		b := make([]byte, 32)
		for i := range b {
			b[i] = byte(r.UintN(256))
		}
		return new(big.Int).Mod(new(big.Int).SetBytes(b), order)
	}
	toWire := func(parts [][]byte) [][]byte {
		out := make([][]byte, len(parts))
		for i := range parts {
			out[i] = append([]byte{}, parts[i]...)
		}
		return out
	}
	var fail string
	skipped := ""
	out := st.Run(func() {
		switch system {
		case "schnorr-ec", "schnorr-ed":
			curve, order := ec, q
			if system == "schnorr-ed" {
				curve, order = tss.Edwards(), Ed.n
			}
			x := witness(order)
			if x.Sign() == 0 && system == "schnorr-ec" {
				skipped = "0*G is the point at infinity, which the library's point type cannot hold"
				return
			}
			X := crypto.ScalarBaseMult(curve, x)
			pf, err := schnorr.NewZKProof(session, x, X, rd)
			if err != nil {
				fail = "prover refused: " + err.Error()
				return
			}
			if !pf.Verify(vsession, X) {
				fail = "honest proof rejected"
				return
			}
			// wire: alpha_x, alpha_y, t as big-endian bytes
			ax, ay, tt := new(big.Int).SetBytes(pf.Alpha.X().Bytes()), new(big.Int).SetBytes(pf.Alpha.Y().Bytes()), new(big.Int).SetBytes(pf.T.Bytes())
			al, err := crypto.NewECPoint(curve, ax, ay)
			if err != nil || !(&schnorr.ZKProof{Alpha: al, T: tt}).Verify(vsession, X) {
				fail = "honest proof rejected after the wire round trip"
			}
		case "schnorr-v", "schnorr-v-ed":
			ec, q := ec, q
			if system == "schnorr-v-ed" {
				ec, q = tss.Edwards(), Ed.n
			}
			s, l := witness(q), witness(q)
			if s.Sign() == 0 || l.Sign() == 0 {
				l = big.NewInt(1)
				if s.Sign() == 0 {
					s = big.NewInt(2)
				}
			}
			R := crypto.ScalarBaseMult(ec, new(big.Int).SetUint64(r.Uint64()|1))
			V, err := R.ScalarMult(s).Add(crypto.ScalarBaseMult(ec, l))
			if err != nil {
				skipped = "V is the point at infinity"
				return
			}
			pf, err := schnorr.NewZKVProof(session, V, R, s, l, rd)
			if err != nil {
				fail = "prover refused: " + err.Error()
				return
			}
			if !pf.Verify(vsession, V, R) {
				fail = "honest proof rejected"
				return
			}
			al, err := crypto.NewECPoint(ec, new(big.Int).SetBytes(pf.Alpha.X().Bytes()), new(big.Int).SetBytes(pf.Alpha.Y().Bytes()))
			if err != nil || !(&schnorr.ZKVProof{Alpha: al, T: new(big.Int).SetBytes(pf.T.Bytes()), U: new(big.Int).SetBytes(pf.U.Bytes())}).Verify(vsession, V, R) {
				fail = "honest proof rejected after the wire round trip"
			}
		case "dln":
			for k, args := range [][3]*big.Int{{A.H1i, A.H2i, A.Alpha}, {A.H2i, A.H1i, A.Beta}} {
				pf := dlnproof.NewDLNProof(args[0], args[1], args[2], A.P, A.Q, A.NTildei, rd)
				if !pf.Verify(args[0], args[1], A.NTildei) {
					fail = fmt.Sprintf("honest dln proof %d rejected", k+1)
					return
				}
				bz, err := pf.Serialize()
				if err != nil {
					fail = "serialise: " + err.Error()
					return
				}
				pf2, err := dlnproof.UnmarshalDLNProof(toWire(bz))
				if err != nil || !pf2.Verify(args[0], args[1], A.NTildei) {
					fail = fmt.Sprintf("honest dln proof %d rejected after the wire round trip (%v)", k+1, err)
					return
				}
			}
		case "paillier-key":
			k := witness(q)
			if k.Sign() == 0 {
				k = big.NewInt(3)
			}
			pub := crypto.ScalarBaseMult(ec, new(big.Int).SetUint64(r.Uint64()|1))
			pf := A.PaillierSK.Proof(k, pub)
			ok, err := pf.Verify(A.PaillierSK.N, k, pub)
			if err != nil || !ok {
				fail = fmt.Sprintf("honest Paillier key proof rejected (%v)", err)
				return
			}
			var pf2 paillier.Proof
			for i := range pf {
				pf2[i] = new(big.Int).SetBytes(pf[i].Bytes())
			}
			if ok, err := pf2.Verify(A.PaillierSK.N, k, pub); err != nil || !ok {
				fail = "honest Paillier key proof rejected after the wire round trip"
			}
		case "mod":
			pf, err := modproof.NewProof(session, A.PaillierSK.N, A.PaillierSK.P, A.PaillierSK.Q, rd)
			if err != nil {
				fail = "prover refused: " + err.Error()
				return
			}
			if !pf.Verify(vsession, A.PaillierSK.N) {
				fail = "honest proof rejected"
				return
			}
			parts := pf.Bytes()
			pf2, err := modproof.NewProofFromBytes(toWire(parts[:]))
			if err != nil || !pf2.Verify(vsession, A.PaillierSK.N) {
				fail = fmt.Sprintf("honest proof rejected after the wire round trip (%v)", err)
			}
		case "fac":
			pf, err := facproof.NewProof(session, ec, A.PaillierSK.N, Bp.NTildei, Bp.H1i, Bp.H2i, A.PaillierSK.P, A.PaillierSK.Q, rd)
			if err != nil {
				fail = "prover refused: " + err.Error()
				return
			}
			if !pf.Verify(vsession, ec, A.PaillierSK.N, Bp.NTildei, Bp.H1i, Bp.H2i) {
				fail = "honest proof rejected"
				return
			}
			parts := pf.Bytes()
			pf2, err := facproof.NewProofFromBytes(toWire(parts[:]))
			if err != nil || !pf2.Verify(vsession, ec, A.PaillierSK.N, Bp.NTildei, Bp.H1i, Bp.H2i) {
				fail = fmt.Sprintf("honest proof rejected after the wire round trip (%v)", err)
			}
		case "alice":
			m := witness(q)
			c, rr, err := A.PaillierSK.PublicKey.EncryptAndReturnRandomness(rd, m)
			if err != nil {
				fail = "encrypt: " + err.Error()
				return
			}
			pf, err := mta.ProveRangeAlice(ec, &A.PaillierSK.PublicKey, c, Bp.NTildei, Bp.H1i, Bp.H2i, m, rr, rd)
			if err != nil {
				fail = "prover refused: " + err.Error()
				return
			}
			if !pf.Verify(ec, &A.PaillierSK.PublicKey, Bp.NTildei, Bp.H1i, Bp.H2i, c) {
				fail = "honest proof rejected"
				return
			}
			parts := pf.Bytes()
			pf2, err := mta.RangeProofAliceFromBytes(toWire(parts[:]))
			if err != nil || !pf2.Verify(ec, &A.PaillierSK.PublicKey, Bp.NTildei, Bp.H1i, Bp.H2i, c) {
				fail = fmt.Sprintf("honest proof rejected after the wire round trip (%v)", err)
			}
		case "bob", "bob-wc":
			// Bob's multiplier x and mask y on Alice's ciphertext c1
			x := witness(q)
			if system == "bob-wc" && x.Sign() == 0 {
				skipped = "x*G is the point at infinity"
				return
			}
			pk := &A.PaillierSK.PublicKey
			c1, err := pk.Encrypt(rd, witness(q))
			if err != nil {
				fail = "encrypt: " + err.Error()
				return
			}
			y := new(big.Int).SetUint64(r.Uint64())
			cy, rr, err := pk.EncryptAndReturnRandomness(rd, y)
			if err != nil {
				fail = "encrypt: " + err.Error()
				return
			}
			c2, err := pk.HomoMult(x, c1)
			if err == nil {
				c2, err = pk.HomoAdd(c2, cy)
			}
			if err != nil {
				fail = "homomorphic step refused an admissible multiplier: " + err.Error()
				return
			}
			if system == "bob" {
				pf, err := mta.ProveBob(session, ec, pk, A.NTildei, A.H1i, A.H2i, c1, c2, x, y, rr, rd)
				if err != nil {
					fail = "prover refused: " + err.Error()
					return
				}
				if !pf.Verify(vsession, ec, pk, A.NTildei, A.H1i, A.H2i, c1, c2) {
					fail = "honest proof rejected"
					return
				}
				parts := pf.Bytes()
				pf2, err := mta.ProofBobFromBytes(toWire(parts[:]))
				if err != nil || !pf2.Verify(vsession, ec, pk, A.NTildei, A.H1i, A.H2i, c1, c2) {
					fail = fmt.Sprintf("honest proof rejected after the wire round trip (%v)", err)
				}
			} else {
				X := crypto.ScalarBaseMult(ec, x)
				pf, err := mta.ProveBobWC(session, ec, pk, A.NTildei, A.H1i, A.H2i, c1, c2, x, y, rr, X, rd)
				if err != nil {
					fail = "prover refused: " + err.Error()
					return
				}
				if !pf.Verify(vsession, ec, pk, A.NTildei, A.H1i, A.H2i, c1, c2, X) {
					fail = "honest proof rejected"
					return
				}
				parts := pf.Bytes()
				pf2, err := mta.ProofBobWCFromBytes(ec, toWire(parts[:]))
				if err != nil || !pf2.Verify(vsession, ec, pk, A.NTildei, A.H1i, A.H2i, c1, c2, X) {
					fail = fmt.Sprintf("honest proof rejected after the wire round trip (%v)", err)
				}
			}
		}
	})
	key := fmt.Sprintf("%s wit=%s session=%s params=%d/%d edges=%v", system, wit, sc.Str("session", ""), sc.Int("params", 0), sc.Int("params2", 1), sc.Bool("edges"))
	if out.Panic != nil {
		rc.Fail("panic", "%s: %v\n%s", key, out.Panic, firstRepoFrames(out.Stack))
		return
	}
	if out.Deadlock {
		rc.Fail("deadlock", "%s: prover or verifier never returned", key)
		return
	}
	if fail != "" {
		rc.Fail("honest-proof-rejected", "%s: %s", key, fail)
		rc.Res.Violation.Key = "honest-proof-rejected#" + system
		return
	}
	if skipped != "" {
		rc.Res.Probes["roundtrip_skipped"]++
	} else {
		rc.Res.Probes["proof_roundtrips_"+system]++
	}
	rc.Res.Probes["edge_entropy_reads"] += rd.main.EdgeReads
	rc.Res.Nontrivial = skipped == ""
	rc.Res.Sample = map[string]interface{}{"exchange": key, "skipped": skipped, "entropy_reads": rd.main.Reads}
}
