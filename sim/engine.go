// Package sim is a deterministic simulator for bnb-chain/tss-lib: real parties, simulated
// transport, entropy, clock (synctest) and key store; one seed decides everything.
package sim

import (
	"bytes"
	"crypto/sha256"
	"encoding/binary"
	"encoding/hex"
	"errors"
	"fmt"
	"math/rand/v2"
	"os"
	"runtime"
	"runtime/debug"
	"sort"
	"strconv"
	"strings"
	"sync"
	"sync/atomic"
	"testing/synctest"

	"github.com/bnb-chain/tss-lib/v2/tss"
)

// ---------------------------------------------------------------------------------------------
// Chooser: the single source of run-time decisions. A run is a pure function of (scenario,
// recorded choice list) and the code under test.

type Chooser struct {
	rng    *rand.Rand
	replay bool
	prefix []int
	pos    int
	Rec    []int
}

func NewChooser(seed uint64, prefix []int, replay bool) *Chooser {
	return &Chooser{rng: rand.New(rand.NewPCG(seed, seed^0x9e3779b97f4a7c15)), prefix: prefix, replay: replay}
}

// Pick returns an index in [0,k). In replay mode the recorded value is used (mod k; 0 once the
// record is exhausted); otherwise f decides (it may use c.Rng()). The decision is recorded.
func (c *Chooser) Pick(k int, f func() int) int {
	Tick()
	v := 0
	if k > 1 {
		if c.replay {
			if c.pos < len(c.prefix) {
				v = c.prefix[c.pos] % k
				if v < 0 {
					v = 0
				}
			}
		} else if f != nil {
			v = f()
			if v < 0 || v >= k {
				v = 0
			}
		}
	}
	c.pos++
	c.Rec = append(c.Rec, v)
	return v
}

func (c *Chooser) Rng() *rand.Rand { return c.rng }

// progress counts simulator events (decisions, steps, entropy reads, log lines). It is read only
// by the worker's real-time stall watchdog (worker.go) and never influences a run.
var progress atomic.Uint64

// Tick records that the simulator is making progress.
func Tick() { progress.Add(1) }

// ---------------------------------------------------------------------------------------------
// DRBG: SHA-256 in counter mode.

type DRBG struct {
	key   [32]byte
	ctr   uint64
	buf   []byte
	Reads int
	Bytes int
	// fault injection (C19): fail the k-th read (1-based) with an error / return short
	FailAt  int
	ShortAt int
	Err     error
	// Edges (C10): about 1 in 64 reads of >= 16 bytes comes back with 1-3 leading zero bytes, i.e.
	// a value whose encoding is short. Decided by a hash of (key, read ordinal): replayable.
	Edges     bool
	EdgeReads int
}

func NewDRBG(parts ...string) *DRBG {
	h := sha256.New()
	for _, p := range parts {
		var l [8]byte
		binary.BigEndian.PutUint64(l[:], uint64(len(p)))
		h.Write(l[:])
		h.Write([]byte(p))
	}
	d := &DRBG{}
	copy(d.key[:], h.Sum(nil))
	return d
}

func (d *DRBG) Read(p []byte) (int, error) {
	Tick()
	d.Reads++
	if d.FailAt > 0 && d.Reads == d.FailAt {
		return 0, d.Err
	}
	n := len(p)
	if d.ShortAt > 0 && d.Reads == d.ShortAt && n > 1 {
		n = n / 2
	}
	out := p[:n]
	for len(out) > 0 {
		if len(d.buf) == 0 {
			var blk [40]byte
			copy(blk[:32], d.key[:])
			binary.BigEndian.PutUint64(blk[32:], d.ctr)
			d.ctr++
			s := sha256.Sum256(blk[:])
			d.buf = s[:]
		}
		c := copy(out, d.buf)
		d.buf = d.buf[c:]
		out = out[c:]
	}
	d.Bytes += n
	if d.Edges && n >= 16 {
		var blk [41]byte
		copy(blk[:32], d.key[:])
		binary.BigEndian.PutUint64(blk[32:], uint64(d.Reads))
		blk[40] = 0xed
		h := sha256.Sum256(blk[:])
		if h[0] < 4 {
			for i := 0; i < 1+int(h[1]%3); i++ {
				p[i] = 0
			}
			d.EdgeReads++
		}
	}
	return n, nil
}

// ---------------------------------------------------------------------------------------------
// goroutine id (used only to tell the step worker from library goroutines and to order parked
// readers by creation order; workers run with GOMAXPROCS=1 so that ids are monotone in creation).

func goid() int64 {
	var buf [64]byte
	n := runtime.Stack(buf[:], false)
	// "goroutine 123 ["
	s := buf[10:n]
	i := bytes.IndexByte(s, ' ')
	id, _ := strconv.ParseInt(string(s[:i]), 10, 64)
	return id
}

// ---------------------------------------------------------------------------------------------
// Stepper: runs one function of the system under test to completion with every entropy read of
// a non-worker goroutine parked and released one at a time in chooser order.

// entryLabel identifies the calling goroutine by its entry function and that function's small
// integer arguments (e.g. "signing.(*round2).Start.func1(0x1" for the Bob_mid goroutine of peer 1),
// read from the goroutine's own stack. Parked readers are ordered by this label first and by
// goroutine id second, so that the order does not depend on how the Go scheduler numbered
// goroutines that were created on different Ps; goroutines with equal labels run the same code on
// the same inputs and are interchangeable.
func entryLabel() string {
	l, _ := entryLabelAndParent()
	return l
}

// entryLabelAndParent also returns the id of the goroutine that created the caller (0 if unknown).
func entryLabelAndParent() (string, int64) {
	buf := make([]byte, 16384)
	n := runtime.Stack(buf, false)
	lines := strings.Split(string(buf[:n]), "\n")
	for i := len(lines) - 1; i >= 0; i-- {
		if strings.HasPrefix(lines[i], "created by ") && i >= 2 {
			var parent int64
			if j := strings.LastIndex(lines[i], " in goroutine "); j >= 0 {
				parent, _ = strconv.ParseInt(strings.TrimSpace(lines[i][j+len(" in goroutine "):]), 10, 64)
			}
			l := entryLabelFrom(lines, i)
			return l, parent
		}
	}
	return "", 0
}

func entryLabelFrom(lines []string, i int) string {
	fn := strings.TrimSpace(lines[i-2])
	k := strings.LastIndex(fn, "(")
	if k < 0 {
		return fn
	}
	name, args := fn[:k], strings.Split(strings.TrimSuffix(fn[k+1:], ")"), ", ")
	var small []string
	for _, a := range args {
		a = strings.TrimSuffix(a, "?")
		if v, err := strconv.ParseUint(strings.TrimPrefix(a, "0x"), 16, 64); err == nil && v < 1<<20 {
			small = append(small, a)
		}
	}
	if j := strings.LastIndex(name, "/"); j >= 0 {
		name = name[j+1:]
	}
	return name + "(" + strings.Join(small, ",")
}

type parkReq struct {
	entry  string
	parent int64 // id of the goroutine that created the reader
	goid   int64
	kind  string
	reply chan *DRBG
}

type Stepper struct {
	Seed       string // run-level entropy seed
	Ch         *Chooser
	worker     atomic.Int64
	mu         sync.Mutex
	parked     []*parkReq
	stepNo     int
	subs       map[string]*DRBG // goid/kind -> substream (per step)
	labels     map[int64]int
	nextLabel  int
	ParkCount  int // parked reads released (all steps)
	Reordered  int // releases where chosen index != 0
	curNode    string
	ExtraParks int
	Edges      bool // entropy mode "edges" for every reader created afterwards
	RaceMode   bool // no parking at all (race-detector runs)
	// BeforeRelease (C19) is called with the ordinal of the parked read about to be served and its
	// substream; it may inject a fault (make the read fail, cancel a context, sleep past a deadline).
	BeforeRelease func(ord int, d *DRBG)
	// Filter, when set, is shown the parked readers (canonical order) at every release and returns the
	// ones that may be served now (nil or empty: all). It lets a driver starve a family of goroutines.
	Filter func(parked []*parkReq) []*parkReq
	// IdleHook is called when the worker is not done and nothing is parked; returning true means the
	// hook did something that may unblock the system (e.g. advanced the fake clock).
	IdleHook func() bool
}

type StepOutcome struct {
	Panic    interface{}
	Stack    string
	Deadlock bool
}

// NodeRand is the io.Reader handed to the library for one node and one purpose ("rand"/"pk").
type NodeRand struct {
	st   *Stepper
	node string
	kind string
	main *DRBG
	// FailAt > 0: the FailAt-th Read of this node (from any of its goroutines) returns ErrEntropyFault
	// once: the node's entropy source breaks in the middle of whatever step is running.
	FailAt int
	Count  int
	Fired  bool
}

// ErrEntropyFault is what an injected entropy failure returns.
var ErrEntropyFault = errors.New("simulated entropy failure")

func (st *Stepper) NewNodeRand(node, kind string) *NodeRand {
	r := &NodeRand{st: st, node: node, kind: kind, main: NewDRBG(st.Seed, node, kind, "main")}
	r.main.Edges = st.Edges
	return r
}

func (r *NodeRand) Main() *DRBG { return r.main }

func (r *NodeRand) Read(p []byte) (int, error) {
	Tick()
	st := r.st
	st.mu.Lock()
	r.Count++
	hit := r.FailAt > 0 && r.Count == r.FailAt
	if hit {
		r.Fired = true
	}
	st.mu.Unlock()
	if hit {
		return 0, ErrEntropyFault
	}
	if st.RaceMode {
		// C09(b): real goroutines under the race detector; which goroutine gets which bytes is left
		// to the Go scheduler on purpose
		st.mu.Lock()
		defer st.mu.Unlock()
		return r.main.Read(p)
	}
	g := goid()
	w := st.worker.Load()
	if w == 0 || g == w {
		return r.main.Read(p)
	}
	el, par := entryLabelAndParent()
	req := &parkReq{goid: g, entry: el, parent: par, kind: r.node + "/" + r.kind, reply: make(chan *DRBG, 1)}
	st.mu.Lock()
	st.parked = append(st.parked, req)
	st.mu.Unlock()
	d := <-req.reply
	return d.Read(p)
}

// Run executes f in a fresh worker goroutine inside the current synctest bubble.
func (st *Stepper) Run(f func()) StepOutcome {
	var out StepOutcome
	done := make(chan struct{})
	Tick()
	st.stepNo++
	st.subs = map[string]*DRBG{}
	st.labels = map[int64]int{}
	st.nextLabel = 0
	go func() {
		defer close(done)
		defer func() {
			if r := recover(); r != nil {
				out.Panic = r
				out.Stack = string(debug.Stack())
			}
		}()
		st.worker.Store(goid())
		f()
	}()
	for {
		synctest.Wait()
		select {
		case <-done:
			st.worker.Store(0)
			return out
		default:
		}
		if st.ServeParked() {
			continue
		}
		if st.IdleHook != nil && st.IdleHook() {
			continue
		}
		out.Deadlock = true
		st.worker.Store(0)
		return out
	}
}

// BeginStep resets the per-step substream labelling (used by controllers that do not go through Run).
func (st *Stepper) BeginStep() {
	Tick()
	st.stepNo++
	st.subs = map[string]*DRBG{}
	st.labels = map[int64]int{}
	st.nextLabel = 0
}

// SetWorker marks the calling goroutine as the one whose entropy reads are served directly.
func (st *Stepper) SetWorker(on bool) {
	if on {
		st.worker.Store(goid())
	} else {
		st.worker.Store(0)
	}
}

// ParkedCount reports how many entropy readers are parked right now.
func (st *Stepper) ParkedCount() int {
	st.mu.Lock()
	defer st.mu.Unlock()
	return len(st.parked)
}

// ServeParked releases one parked entropy reader (chosen by the Chooser among the readers sorted by
// creation order) and returns false if none is parked. Must be called at a quiescent point.
func (st *Stepper) ServeParked() bool {
	st.mu.Lock()
	parked := st.parked
	st.mu.Unlock()
	if len(parked) == 0 {
		return false
	}
	// readers with the same entry label: those created by the parent with more parked children first (two
	// worker pools running the same function, as in pre-parameter generation, differ in size but not in
	// label, and goroutine ids of different parents are not ordered the same way at every GOMAXPROCS)
	siblings := map[int64]int{}
	for _, p := range parked {
		siblings[p.parent]++
	}
	sort.SliceStable(parked, func(i, j int) bool {
		if parked[i].entry != parked[j].entry {
			return parked[i].entry < parked[j].entry
		}
		if si, sj := siblings[parked[i].parent], siblings[parked[j].parent]; si != sj {
			return si > sj
		}
		return parked[i].goid < parked[j].goid
	})
	for _, p := range parked {
		if _, ok := st.labels[p.goid]; !ok {
			st.labels[p.goid] = st.nextLabel
			st.nextLabel++
		}
	}
	cands := parked
	if st.Filter != nil {
		if f := st.Filter(parked); len(f) > 0 {
			cands = f
		}
	}
	idx := st.Ch.Pick(len(cands), func() int {
		// mostly creation order, sometimes another goroutine first
		if st.Ch.Rng().IntN(4) == 0 {
			return st.Ch.Rng().IntN(len(cands))
		}
		return 0
	})
	if idx != 0 {
		st.Reordered++
	}
	p := cands[idx]
	rest := make([]*parkReq, 0, len(parked))
	for _, x := range parked {
		if x != p {
			rest = append(rest, x)
		}
	}
	st.mu.Lock()
	// readers that parked since the snapshot was taken stay parked
	for _, x := range st.parked {
		known := false
		for _, y := range parked {
			if x == y {
				known = true
				break
			}
		}
		if !known {
			rest = append(rest, x)
		}
	}
	st.parked = rest
	st.mu.Unlock()
	key := fmt.Sprintf("%d/%s", st.labels[p.goid], p.kind)
	d := st.subs[key]
	if d == nil {
		d = NewDRBG(st.Seed, p.kind, "sub", strconv.Itoa(st.stepNo), strconv.Itoa(st.labels[p.goid]))
		d.Edges = st.Edges
		st.subs[key] = d
	}
	st.ParkCount++
	if st.BeforeRelease != nil {
		st.BeforeRelease(st.ParkCount, d)
	}
	p.reply <- d
	return true
}

// ---------------------------------------------------------------------------------------------
// World

type Node struct {
	Idx       int
	Name      string
	PID       *tss.PartyID
	Committee string // "", "old", "new"
	Party     tss.Party
	Out       chan tss.Message
	PollEnd   func() (interface{}, bool)
	Rand      *NodeRand
	PKRand    *NodeRand

	Started  bool
	StartErr *tss.Error
	Results  []interface{}
	Errs     []*tss.Error
	ErrSteps []int
	Silenced bool
	Crashed  bool // an injected entropy failure made one of its calls panic
	Byz      bool
	Emitted  []*Emission
}

type Emission struct {
	Step   int
	Type   string
	Bcast  bool
	ToOld  bool
	ToBoth bool
	To     []int // recipient node indices, sorted
	ToNil  bool
	Wire   []byte
	Msg    tss.Message
}

type Envelope struct {
	Seq     int
	MsgID   int
	From    int
	To      int
	Bcast   bool
	Type    string
	Wire    []byte
	Orig    int  // seq of the envelope this one duplicates, -1 otherwise
	Flipped bool // transport flag inverted on purpose
	Junk    bool // injected bytes (not produced by a party)
	Round   int
}

type StepEvent struct {
	No       int
	Kind     string // start, deliver
	Node     *Node
	Env      *Envelope
	Ok       bool
	Err      *tss.Error
	Outcome  StepOutcome
	Emitted  []*Emission
	NewRes   []interface{}
	Waiting  []string
	RoundStr string
}

type Violation struct {
	Class string `json:"class"`
	Key   string `json:"key,omitempty"` // specific identity used by the known-findings file (defaults to Class)
	Msg   string `json:"msg"`
	Step  int    `json:"step"`
}

func (v *Violation) Error() string { return fmt.Sprintf("[%s] step %d: %s", v.Class, v.Step, v.Msg) }

type World struct {
	St        *Stepper
	Ch        *Chooser
	Nodes     []*Node
	Inflight  []*Envelope
	Delivered []*Envelope
	seq       int
	msgID     int
	StepNo    int
	Log       []string
	Events    []*StepEvent
	AfterStep []func(ev *StepEvent) *Violation
	// Intercept lets a Byzantine layer rewrite or suppress a message before fan-out. It returns
	// the (possibly altered) wire bytes and whether to send at all.
	Intercept func(from *Node, em *Emission) (wire []byte, send bool)
	Faults    map[string]int
	Probes    map[string]int
	Violation *Violation
	Quiet     bool
	RoundOf   func(msgType string) int
	// lockDepth counts, through the verif hook, party-mutex acquisitions not yet released in the step in
	// progress (TrackLocks): after a step that panicked it tells whether the party left its mutex locked.
	lockDepth    int32
	locksTracked bool
	// TolerateCrashOf: a panic inside this node's own calls is that node stopping, not a finding (C11: a
	// deviating party running the real code on inputs it was never meant to see).
	TolerateCrashOf *Node
	// OldPartyCount, when larger than the number of participating old members, is passed as partyCount to
	// the resharing parameters (the number of holders of the key).
	OldPartyCount int
}

// TrackLocks installs the party-mutex hook for this world; the returned function removes it.
func (w *World) TrackLocks() func() {
	w.locksTracked = true
	tss.SimYield = func(p *tss.BaseParty, point string) {
		if point == "lock" {
			atomic.AddInt32(&w.lockDepth, 1)
		} else {
			atomic.AddInt32(&w.lockDepth, -1)
		}
	}
	return func() { tss.SimYield = nil }
}

func NewWorld(seed string, ch *Chooser) *World {
	return &World{
		St:     &Stepper{Seed: seed, Ch: ch},
		Ch:     ch,
		Faults: map[string]int{},
		Probes: map[string]int{},
	}
}

func (w *World) AddNode(name, committee string, pid *tss.PartyID) *Node {
	n := &Node{Idx: len(w.Nodes), Name: name, PID: pid, Committee: committee}
	n.Rand = w.St.NewNodeRand(name, "rand")
	n.PKRand = w.St.NewNodeRand(name, "pk")
	n.Out = make(chan tss.Message, 4096)
	w.Nodes = append(w.Nodes, n)
	return n
}

func (w *World) Logf(format string, a ...interface{}) {
	Tick()
	w.Log = append(w.Log, fmt.Sprintf(format, a...))
}

func (w *World) LogHash() string {
	h := sha256.New()
	for _, l := range w.Log {
		h.Write([]byte(l))
		h.Write([]byte{'\n'})
	}
	return hex.EncodeToString(h.Sum(nil))
}

func (w *World) fail(class, format string, a ...interface{}) *Violation {
	v := &Violation{Class: class, Msg: fmt.Sprintf(format, a...), Step: w.StepNo}
	if w.Violation == nil {
		w.Violation = v
	}
	w.Logf("VIOLATION %s", v.Error())
	return v
}

func shortHash(b []byte) string {
	s := sha256.Sum256(b)
	return hex.EncodeToString(s[:6])
}

// nodeByKey resolves a PartyID to a node restricted to the given committees.
func (w *World) nodeByKey(key []byte, committees ...string) *Node {
	for _, n := range w.Nodes {
		ok := len(committees) == 0
		for _, c := range committees {
			if n.Committee == c {
				ok = true
			}
		}
		if ok && bytes.Equal(n.PID.Key, key) {
			return n
		}
	}
	return nil
}

// drain turns everything the node has emitted into envelopes and collects results.
func (w *World) drain(n *Node, ev *StepEvent) {
	for {
		select {
		case m := <-n.Out:
			w.emit(n, m, ev)
			continue
		default:
		}
		break
	}
	for {
		r, ok := n.PollEnd()
		if !ok {
			break
		}
		n.Results = append(n.Results, r)
		if ev != nil {
			ev.NewRes = append(ev.NewRes, r)
		}
		w.Logf("  result node=%s #%d", n.Name, len(n.Results))
	}
}

func (w *World) emit(n *Node, m tss.Message, ev *StepEvent) {
	wire, _, err := m.WireBytes()
	if err != nil {
		w.fail("wire-encode", "node %s: WireBytes of %s failed: %v", n.Name, m.Type(), err)
		return
	}
	em := &Emission{Step: w.StepNo, Type: shortType(m.Type()), Bcast: m.IsBroadcast(), ToOld: m.IsToOldCommittee(),
		ToBoth: m.IsToOldAndNewCommittees(), Wire: wire, Msg: m}
	var rcpts []*Node
	to := m.GetTo()
	if to == nil {
		em.ToNil = true
		for _, o := range w.Nodes {
			if o != n && o.Committee == n.Committee {
				rcpts = append(rcpts, o)
			}
		}
	} else {
		var cs []string
		switch {
		case n.Committee == "":
			cs = nil
		case m.IsToOldAndNewCommittees():
			cs = []string{"old", "new"}
		case m.IsToOldCommittee():
			cs = []string{"old"}
		default:
			cs = []string{"new"}
		}
		seen := map[int]bool{}
		for _, t := range to {
			if t == nil {
				w.fail("routing", "node %s emitted %s with a nil recipient", n.Name, em.Type)
				continue
			}
			r := w.nodeByKey(t.Key, cs...)
			if r == nil {
				w.fail("routing", "node %s emitted %s to unknown party key %x (committees %v)", n.Name, em.Type, t.Key, cs)
				continue
			}
			if r == n || seen[r.Idx] {
				continue
			}
			seen[r.Idx] = true
			rcpts = append(rcpts, r)
		}
	}
	for _, r := range rcpts {
		em.To = append(em.To, r.Idx)
	}
	sort.Ints(em.To)
	n.Emitted = append(n.Emitted, em)
	if ev != nil {
		ev.Emitted = append(ev.Emitted, em)
	}
	w.Logf("  emit node=%s type=%s bcast=%v old=%v both=%v to=%v wire=%s", n.Name, em.Type, em.Bcast, em.ToOld, em.ToBoth, em.To, shortHash(wire))
	send := true
	if w.Intercept != nil {
		wire, send = w.Intercept(n, em)
	}
	if !send {
		return
	}
	w.msgID++
	for _, r := range rcpts {
		w.seq++
		e := &Envelope{Seq: w.seq, MsgID: w.msgID, From: n.Idx, To: r.Idx, Bcast: em.Bcast, Type: em.Type, Wire: wire, Orig: -1}
		if w.RoundOf != nil {
			e.Round = w.RoundOf(em.Type)
		}
		w.Inflight = append(w.Inflight, e)
	}
}

// SendEmission puts (possibly altered) wire bytes of an earlier intercepted emission on the wire.
func (w *World) SendEmission(n *Node, em *Emission, wire []byte) {
	w.msgID++
	for _, to := range em.To {
		w.seq++
		e := &Envelope{Seq: w.seq, MsgID: w.msgID, From: n.Idx, To: to, Bcast: em.Bcast, Type: em.Type, Wire: wire, Orig: -1}
		if w.RoundOf != nil {
			e.Round = w.RoundOf(em.Type)
		}
		w.Inflight = append(w.Inflight, e)
	}
}

func shortType(t string) string {
	return strings.TrimPrefix(t, "binance.tsslib.")
}

func (w *World) waitingNames(n *Node) []string {
	ids := n.Party.WaitingFor()
	out := make([]string, 0, len(ids))
	for _, id := range ids {
		if id == nil {
			out = append(out, "<nil>")
			continue
		}
		name := fmt.Sprintf("key:%x", id.Key)
		for _, o := range w.Nodes {
			if bytes.Equal(o.PID.Key, id.Key) {
				name = o.Name
			}
		}
		out = append(out, name)
	}
	sort.Strings(out)
	return out
}

func errString(e *tss.Error) string {
	if e == nil {
		return ""
	}
	cs := []string{}
	for _, c := range e.Culprits() {
		if c == nil {
			cs = append(cs, "<nil>")
		} else {
			cs = append(cs, fmt.Sprintf("%d", c.Index))
		}
	}
	cause := "<nil cause>"
	if e.Cause() != nil {
		cause = e.Cause().Error()
	}
	return fmt.Sprintf("round=%d culprits=[%s] %s", e.Round(), strings.Join(cs, ","), cause)
}

func (w *World) finishStep(ev *StepEvent) {
	n := ev.Node
	if ev.Outcome.Panic != nil && n.Rand != nil && n.Rand.Fired && !n.Crashed && strings.Contains(fmt.Sprint(ev.Outcome.Panic), ErrEntropyFault.Error()) {
		// the injected entropy failure surfaced as a panic of this call: the node crashed in mid-step.
		// What it had already handed to its out channel is on the wire. If it left its mutex locked no
		// further call can be made on it (it is dead); otherwise the application may keep driving it.
		n.Crashed = true
		w.Faults["entropy-crash"]++
		held := !w.locksTracked || atomic.LoadInt32(&w.lockDepth) > 0
		atomic.StoreInt32(&w.lockDepth, 0)
		if held {
			n.Silenced = true
			w.Probes["crashed_with_its_mutex_held"]++
		} else {
			w.Probes["crashed_but_can_still_be_driven"]++
		}
		w.Logf("  -> FAULT node %s crashed in mid-step at entropy read %d (mutex left locked: %v)", n.Name, n.Rand.FailAt, held)
		w.drain(n, ev)
		w.Events = append(w.Events, ev)
		for _, f := range w.AfterStep {
			if v := f(ev); v != nil && w.Violation == nil {
				w.Violation = v
			}
		}
		return
	}
	atomic.StoreInt32(&w.lockDepth, 0)
	if ev.Outcome.Panic != nil && n == w.TolerateCrashOf {
		// a deviating party running the real code on wrong inputs broke down: for the others it is a party
		// that stopped; what it had sent stays sent
		n.Crashed, n.Silenced = true, true
		w.Probes["deviating_party_broke_down"]++
		w.Logf("  -> deviating node %s broke down: %v", n.Name, ev.Outcome.Panic)
		w.drain(n, ev)
		w.Events = append(w.Events, ev)
		for _, f := range w.AfterStep {
			if v := f(ev); v != nil && w.Violation == nil {
				w.Violation = v
			}
		}
		return
	}
	if ev.Outcome.Panic != nil {
		w.fail("panic", "node %s %s: panic: %v\n%s", n.Name, ev.Kind, ev.Outcome.Panic, firstRepoFrames(ev.Outcome.Stack))
	}
	if ev.Outcome.Deadlock {
		w.fail("deadlock", "node %s %s: call never returned (worker blocked, nothing parked)", n.Name, ev.Kind)
		return
	}
	w.drain(n, ev)
	if ev.Outcome.Panic == nil {
		o := w.St.Run(func() {
			ev.Waiting = w.waitingNames(n)
			ev.RoundStr = n.Party.String()
		})
		if o.Panic != nil || o.Deadlock {
			w.fail("panic", "node %s WaitingFor/String: %v", n.Name, o.Panic)
		}
	}
	if i := strings.Index(ev.RoundStr, "round:"); i >= 0 {
		ev.RoundStr = strings.TrimSpace(ev.RoundStr[i:])
	} else if strings.Contains(ev.RoundStr, "No more rounds") {
		ev.RoundStr = "done"
	}
	w.Logf("  -> ok=%v err=%q waiting=%v round=%q", ev.Ok, errString(ev.Err), ev.Waiting, ev.RoundStr)
	w.Events = append(w.Events, ev)
	for _, f := range w.AfterStep {
		if v := f(ev); v != nil && w.Violation == nil {
			w.Violation = v
		}
	}
}

// Start starts a node's party.
func (w *World) Start(n *Node) *StepEvent {
	w.StepNo++
	ev := &StepEvent{No: w.StepNo, Kind: "start", Node: n}
	w.Logf("step %d start node=%s", w.StepNo, n.Name)
	n.Started = true
	ev.Outcome = w.St.Run(func() {
		ev.Err = n.Party.Start()
	})
	ev.Ok = ev.Err == nil
	if ev.Err != nil {
		n.StartErr = ev.Err
		n.Errs = append(n.Errs, ev.Err)
		n.ErrSteps = append(n.ErrSteps, w.StepNo)
	}
	w.finishStep(ev)
	return ev
}

// Deliver hands an envelope to its recipient through UpdateFromBytes. The envelope is removed from
// the in-flight list if it is there.
func (w *World) Deliver(e *Envelope) *StepEvent {
	for i, x := range w.Inflight {
		if x == e {
			w.Inflight = append(w.Inflight[:i:i], w.Inflight[i+1:]...)
			break
		}
	}
	w.Delivered = append(w.Delivered, e)
	w.StepNo++
	n := w.Nodes[e.To]
	from := w.Nodes[e.From]
	ev := &StepEvent{No: w.StepNo, Kind: "deliver", Node: n, Env: e}
	flag := e.Bcast
	if e.Flipped {
		flag = !flag
	}
	w.Logf("step %d deliver seq=%d msg=%d %s->%s type=%s flag=%v orig=%d flipped=%v wire=%s", w.StepNo, e.Seq, e.MsgID, from.Name, n.Name, e.Type, flag, e.Orig, e.Flipped, shortHash(e.Wire))
	if !n.Started {
		w.Probes["deliver_before_start"]++
	}
	if len(n.Results) > 0 {
		w.Probes["deliver_after_finish"]++
	}
	ev.Outcome = w.St.Run(func() {
		ev.Ok, ev.Err = n.Party.UpdateFromBytes(e.Wire, from.PID, flag)
	})
	if ev.Err != nil {
		n.Errs = append(n.Errs, ev.Err)
		n.ErrSteps = append(n.ErrSteps, w.StepNo)
	}
	w.finishStep(ev)
	return ev
}

// DeliverAs delivers arbitrary bytes to node n as if from node `from` (Byzantine / junk input).
func (w *World) DeliverRaw(n, from *Node, fromPID *tss.PartyID, wire []byte, bcast bool, typ string) *StepEvent {
	w.seq++
	e := &Envelope{Seq: w.seq, From: from.Idx, To: n.Idx, Bcast: bcast, Type: typ, Wire: wire, Orig: -1, Junk: true}
	w.Delivered = append(w.Delivered, e)
	w.StepNo++
	ev := &StepEvent{No: w.StepNo, Kind: "deliver", Node: n, Env: e}
	w.Logf("step %d deliver-raw %s->%s type=%s flag=%v fromIdx=%d wire=%s len=%d", w.StepNo, from.Name, n.Name, typ, bcast, fromPID.Index, shortHash(wire), len(wire))
	ev.Outcome = w.St.Run(func() {
		ev.Ok, ev.Err = n.Party.UpdateFromBytes(wire, fromPID, bcast)
	})
	if ev.Err != nil {
		n.Errs = append(n.Errs, ev.Err)
		n.ErrSteps = append(n.ErrSteps, w.StepNo)
	}
	w.finishStep(ev)
	return ev
}

func firstRepoFrames(stack string) string {
	lines := strings.Split(stack, "\n")
	var out []string
	for i := 0; i+1 < len(lines); i++ {
		if strings.Contains(lines[i+1], RepoRoot()+"/") && !strings.HasPrefix(lines[i], "\t") {
			// function name and file:line only: argument values and pc offsets are addresses that differ
			// from process to process and must not reach the event log
			fn := strings.TrimSpace(lines[i])
			if k := strings.LastIndex(fn, "("); k > 0 {
				fn = fn[:k]
			}
			loc := strings.Fields(strings.TrimSpace(lines[i+1]))[0]
			out = append(out, fn+" @ "+loc)
			if len(out) >= 4 {
				break
			}
		}
	}
	return strings.Join(out, "\n")
}

// RepoRoot is where the tree under test lives (/repo; a background sweep may point VERIF_REPO at a
// snapshot of it, which the supervisor then also builds against).
func RepoRoot() string {
	if r := os.Getenv("VERIF_REPO"); r != "" {
		return r
	}
	return "/repo"
}

// PanicSite extracts "file.go:line" of the first frame inside /repo from a stack.
func PanicSite(stack string) string {
	for _, l := range strings.Split(stack, "\n") {
		l = strings.TrimSpace(l)
		if strings.HasPrefix(l, RepoRoot()+"/") {
			f := strings.Fields(l)[0]
			return strings.TrimPrefix(f, RepoRoot()+"/")
		}
	}
	return "?"
}

// ---------------------------------------------------------------------------------------------
// Scheduling

type SchedConfig struct {
	Strategy    string  `json:"strategy"`
	PreStart    bool    `json:"prestart"` // deliveries may precede the recipient's Start
	DupPct      int     `json:"dup_pct"`
	ReplayPct   int     `json:"replay_pct"`
	FlipPct     int     `json:"flip_pct"`
	MaxFaults   int     `json:"max_faults"`
	MaxSteps    int     `json:"max_steps"`
	Victim      int     `json:"victim"`    // node index for starvation strategies
	SwitchEvery int     `json:"switch_every"`
	CutAt       int     `json:"cut_at"`     // stop the world after this many steps (0 = never)
	SilenceNode int     `json:"silence_node"` // node that goes silent ...
	SilenceAt   int     `json:"silence_at"`   // ... from this step on (0 = never)
	DropPct     int     `json:"drop_pct"`
	StopOnError bool    `json:"stop_on_error"`
	HoldType    string  `json:"hold_type,omitempty"` // deliver flag-flipped copies of this type first, hold the genuine ones back
	_           float64 // keep struct comparable-free
}

var StrategyNames = []string{"fifo", "lifo", "random", "starve-recipient", "starve-sender", "future-first", "round-robin", "prestart-flood", "mix"}

type action struct {
	start *Node
	env   *Envelope
}

// candidates returns the canonical, ordered list of enabled actions.
func (w *World) candidates(cfg *SchedConfig) []action {
	var out []action
	for _, n := range w.Nodes {
		if !n.Started && !n.Silenced {
			out = append(out, action{start: n})
		}
	}
	for _, e := range w.Inflight {
		r := w.Nodes[e.To]
		if r.Silenced {
			continue
		}
		if !r.Started && !cfg.PreStart {
			continue
		}
		out = append(out, action{env: e})
	}
	return out
}

func (w *World) strategyPick(cfg *SchedConfig, name string, c []action) int {
	rng := w.Ch.Rng()
	firstEnv := -1
	for i, a := range c {
		if a.env != nil {
			firstEnv = i
			break
		}
	}
	switch name {
	case "fifo":
		return 0
	case "lifo":
		return len(c) - 1
	case "random":
		return rng.IntN(len(c))
	case "starve-recipient":
		var ok []int
		for i, a := range c {
			if (a.env != nil && a.env.To != cfg.Victim) || (a.start != nil && a.start.Idx != cfg.Victim) {
				ok = append(ok, i)
			}
		}
		if len(ok) > 0 {
			return ok[rng.IntN(len(ok))]
		}
		return rng.IntN(len(c))
	case "starve-sender":
		var ok []int
		for i, a := range c {
			if a.env == nil || a.env.From != cfg.Victim {
				ok = append(ok, i)
			}
		}
		if len(ok) > 0 {
			return ok[rng.IntN(len(ok))]
		}
		return rng.IntN(len(c))
	case "future-first":
		// highest protocol round first: maximises early arrivals; starts come first
		if firstEnv < 0 || firstEnv > 0 {
			return 0
		}
		best, br := 0, -1
		for i, a := range c {
			if a.env != nil && a.env.Round >= br {
				best, br = i, a.env.Round
			}
		}
		return best
	case "round-robin":
		if firstEnv != 0 {
			return 0
		}
		want := w.StepNo % len(w.Nodes)
		for d := 0; d < len(w.Nodes); d++ {
			for i, a := range c {
				if a.env != nil && a.env.To == (want+d)%len(w.Nodes) {
					return i
				}
			}
		}
		return 0
	case "prestart-flood":
		// start everyone but the victim, deliver everything deliverable (also to the unstarted
		// victim), start the victim last
		for i, a := range c {
			if a.start != nil && a.start.Idx != cfg.Victim {
				return i
			}
		}
		if firstEnv >= 0 {
			return firstEnv + rng.IntN(len(c)-firstEnv)
		}
		return 0
	}
	return rng.IntN(len(c))
}

// RunSchedule drives the world until no action is enabled, a violation occurs, or a cap is hit.
// It returns true when the network drained (no enabled action left).
func (w *World) RunSchedule(cfg *SchedConfig) bool {
	if cfg.MaxSteps == 0 {
		cfg.MaxSteps = 2000
	}
	faults := 0
	mixCur := "random"
	heldFlipped := map[int]bool{}
	for w.StepNo < cfg.MaxSteps {
		if w.Violation != nil {
			return false
		}
		if cfg.CutAt > 0 && w.StepNo >= cfg.CutAt {
			w.Faults["cut"]++
			w.Logf("CUT at step %d", w.StepNo)
			return false
		}
		if cfg.SilenceAt > 0 && w.StepNo >= cfg.SilenceAt && !w.Nodes[cfg.SilenceNode].Silenced {
			w.Nodes[cfg.SilenceNode].Silenced = true
			w.Faults["silence"]++
			w.Logf("SILENCE node=%s at step %d", w.Nodes[cfg.SilenceNode].Name, w.StepNo)
		}
		c := w.candidates(cfg)
		if len(c) == 0 {
			return true
		}
		if cfg.HoldType != "" {
			// channel-discipline probe: every message of one type reaches its recipient first as a copy
			// with the transport's broadcast flag inverted; the genuine copies are held back for as long
			// as anything else can be delivered, so that everything else of the round is already there
			flipped := false
			for _, a := range c {
				e := a.env
				if e != nil && e.Type == cfg.HoldType && !e.Flipped && e.Orig < 0 && !heldFlipped[e.Seq] {
					heldFlipped[e.Seq] = true
					w.seq++
					d := *e
					d.Seq, d.Orig, d.Flipped = w.seq, e.Seq, true
					w.Faults["flag_flip"]++
					w.Logf("FAULT flag-flip copy of held seq=%d delivered as seq=%d", e.Seq, d.Seq)
					w.Deliver(&d)
					flipped = true
					break
				}
			}
			if flipped {
				continue
			}
			var rest []action
			for _, a := range c {
				if !(a.env != nil && a.env.Type == cfg.HoldType && a.env.Orig < 0 && !a.env.Flipped) {
					rest = append(rest, a)
				}
			}
			if len(rest) > 0 {
				c = rest
			} else {
				w.Probes["held_type_released_last"]++
			}
		}
		name := cfg.Strategy
		if name == "mix" {
			k := cfg.SwitchEvery
			if k <= 0 {
				k = 7
			}
			if w.StepNo%k == 0 && !w.Ch.replay {
				mixCur = StrategyNames[w.Ch.Rng().IntN(len(StrategyNames)-2)]
			}
			name = mixCur
		}
		idx := w.Ch.Pick(len(c), func() int { return w.strategyPick(cfg, name, c) })
		a := c[idx]
		if a.start != nil {
			ev := w.Start(a.start)
			if cfg.StopOnError && ev.Err != nil {
				return false
			}
			continue
		}
		e := a.env
		// fault decision for this delivery: 0 none, 1 duplicate (a copy stays in flight), 2 flag flip
		// (deliver a flipped copy, original stays in flight), 3 replay an already delivered
		// envelope to the same recipient first, 4 drop
		fk := 0
		if faults < cfg.MaxFaults {
			fk = w.Ch.Pick(5, func() int {
				r := w.Ch.Rng().IntN(100)
				switch {
				case r < cfg.DupPct:
					return 1
				case r < cfg.DupPct+cfg.FlipPct:
					return 2
				case r < cfg.DupPct+cfg.FlipPct+cfg.ReplayPct:
					return 3
				case r < cfg.DupPct+cfg.FlipPct+cfg.ReplayPct+cfg.DropPct:
					return 4
				}
				return 0
			})
		}
		switch fk {
		case 1:
			if cfg.DupPct > 0 || w.Ch.replay {
				w.seq++
				d := *e
				d.Seq = w.seq
				d.Orig = e.Seq
				w.Inflight = append(w.Inflight, &d)
				w.Faults["duplicate"]++
				faults++
				w.Logf("FAULT duplicate seq=%d -> seq=%d", e.Seq, d.Seq)
			}
		case 2:
			// only while no copy of this message has reached this recipient yet: the flipped copy
			// always precedes the correct one, so completion still follows
			seen := false
			for _, x := range w.Delivered {
				if x.MsgID == e.MsgID && x.To == e.To {
					seen = true
				}
			}
			if (cfg.FlipPct > 0 || w.Ch.replay) && !seen {
				w.seq++
				d := *e
				d.Seq = w.seq
				d.Orig = e.Seq
				d.Flipped = true
				w.Faults["flag_flip"]++
				faults++
				w.Logf("FAULT flag-flip copy of seq=%d delivered first as seq=%d", e.Seq, d.Seq)
				ev := w.Deliver(&d)
				if cfg.StopOnError && ev.Err != nil {
					return false
				}
				continue // original stays in flight
			}
		case 3:
			if cfg.ReplayPct > 0 || w.Ch.replay {
				var old []*Envelope
				for _, x := range w.Delivered {
					if x.To == e.To && !x.Flipped && !x.Junk {
						old = append(old, x)
					}
				}
				if len(old) > 0 {
					k := w.Ch.Pick(len(old), func() int { return w.Ch.Rng().IntN(len(old)) })
					w.seq++
					d := *old[k]
					d.Seq = w.seq
					d.Orig = old[k].Seq
					w.Faults["replay_delivered"]++
					faults++
					w.Logf("FAULT replay of delivered seq=%d as seq=%d", old[k].Seq, d.Seq)
					ev := w.Deliver(&d)
					if cfg.StopOnError && ev.Err != nil {
						return false
					}
					continue
				}
			}
		case 4:
			if cfg.DropPct > 0 || w.Ch.replay {
				for i, x := range w.Inflight {
					if x == e {
						w.Inflight = append(w.Inflight[:i:i], w.Inflight[i+1:]...)
						break
					}
				}
				w.Faults["drop"]++
				faults++
				w.Logf("FAULT drop seq=%d", e.Seq)
				continue
			}
		}
		ev := w.Deliver(e)
		if cfg.StopOnError && ev.Err != nil {
			return false
		}
	}
	w.Logf("STEP CAP reached")
	return false
}

// InboxOrders returns, per node, the sequence of (sender,type) in delivery order: the schedule's
// observable shape. Its hash is the "distinct schedule" measure.
func (w *World) InboxOrders() [][]string {
	out := make([][]string, len(w.Nodes))
	startAt := make([]int, len(w.Nodes))
	for _, ev := range w.Events {
		if ev.Kind == "start" {
			startAt[ev.Node.Idx] = ev.No
			out[ev.Node.Idx] = append(out[ev.Node.Idx], "START")
		} else if ev.Env != nil {
			tag := fmt.Sprintf("%s:%s", w.Nodes[ev.Env.From].Name, ev.Env.Type)
			if ev.Env.Orig >= 0 {
				tag += "+dup"
			}
			if ev.Env.Flipped {
				tag += "+flip"
			}
			out[ev.Node.Idx] = append(out[ev.Node.Idx], tag)
		}
	}
	return out
}

func (w *World) ScheduleHash() string {
	h := sha256.New()
	for i, in := range w.InboxOrders() {
		fmt.Fprintf(h, "%d:", i)
		for _, s := range in {
			h.Write([]byte(s))
			h.Write([]byte{','})
		}
		h.Write([]byte{';'})
	}
	return hex.EncodeToString(h.Sum(nil)[:8])
}

// IsFIFO reports whether every delivery happened in creation order with all starts first.
func (w *World) IsFIFO() bool {
	last := 0
	seenDeliver := false
	for _, ev := range w.Events {
		if ev.Kind == "start" {
			if seenDeliver {
				return false
			}
			continue
		}
		seenDeliver = true
		if ev.Env.Seq < last {
			return false
		}
		last = ev.Env.Seq
	}
	return true
}
