package sim

import (
	"encoding/json"
	"fmt"
	"math/big"
	"math/rand/v2"
	"strings"
	"sync"

	"github.com/bnb-chain/tss-lib/v2/common"
	eckg "github.com/bnb-chain/tss-lib/v2/ecdsa/keygen"
	edkg "github.com/bnb-chain/tss-lib/v2/eddsa/keygen"
	"github.com/bnb-chain/tss-lib/v2/tss"
)

// C20, race batch: several signing sessions over the SAME in-memory key data run side by side, each in
// its own goroutine (the way a service signs several requests at once). Like C09's second batch this
// runs on the -race binary with real goroutines: the schedule is the Go scheduler's, on purpose. Oracles:
// every session ends with a valid signature, no two sessions share a nonce point R, the key data is
// byte-for-byte what it was, and the race detector reports no unsynchronised access with both stacks in
// the library (state shared between sessions behind the caller's back).

func init() {
	Drivers["sessions-race"] = driveSessionsRace
}

func genC20Race(seed uint64, run int) *Scenario {
	r := rand.New(rand.NewPCG(seedFor(seed, "C20", run, "race-gen"), 1))
	p := map[string]interface{}{"sessions": 2 + r.IntN(2), "samemsg": r.IntN(2) == 0}
	if run%3 == 2 {
		p["curve"] = "ec"
		p["sessions"] = 2
	} else {
		p["curve"] = "ed"
		n, t := nt(r, 4)
		if n < 3 {
			n = 3
		}
		p["n"], p["t"] = n, t
		p["idpool"] = r.IntN(3)
	}
	return &Scenario{Check: "C20", Kind: "sessions-race", Seed: seed, Run: run, P: p, Sched: SchedConfig{Strategy: "fifo"}}
}

// pumpSession drives one signing session to the end: plain FIFO pump in the calling goroutine.
func pumpSession(nodes []*Node, gate <-chan struct{}) (sigs []*common.SignatureData, fail string) {
	<-gate
	for _, n := range nodes {
		if err := n.Party.Start(); err != nil {
			return nil, fmt.Sprintf("node %s: Start: %s", n.Name, errString(err))
		}
	}
	byKey := func(pid *tss.PartyID) *Node {
		for _, n := range nodes {
			if n.PID.KeyInt().Cmp(pid.KeyInt()) == 0 {
				return n
			}
		}
		return nil
	}
	for iter := 0; iter < 100000; iter++ {
		progressed := false
		for _, n := range nodes {
			for {
				var m tss.Message
				select {
				case m = <-n.Out:
				default:
				}
				if m == nil {
					break
				}
				progressed = true
				wire, _, err := m.WireBytes()
				if err != nil {
					return nil, fmt.Sprintf("node %s: WireBytes: %v", n.Name, err)
				}
				var dests []*Node
				if to := m.GetTo(); to == nil {
					for _, d := range nodes {
						if d != n {
							dests = append(dests, d)
						}
					}
				} else {
					for _, pid := range to {
						if d := byKey(pid); d != nil {
							dests = append(dests, d)
						}
					}
				}
				for _, d := range dests {
					if _, err := d.Party.UpdateFromBytes(wire, m.GetFrom(), m.IsBroadcast()); err != nil {
						return nil, fmt.Sprintf("node %s: update with %s from %s: %s", d.Name, m.Type(), n.Name, errString(err))
					}
				}
			}
			if r, ok := n.PollEnd(); ok {
				n.Results = append(n.Results, r)
				progressed = true
			}
		}
		done := true
		for _, n := range nodes {
			if len(n.Results) == 0 {
				done = false
			}
		}
		if done {
			for _, n := range nodes {
				sigs = append(sigs, n.Results[0].(*common.SignatureData))
			}
			return sigs, ""
		}
		if !progressed {
			return nil, "the session stalled: nothing in flight and not every signer has a result"
		}
	}
	return nil, "the session did not end"
}

func driveSessionsRace(rc *RunCtx) {
	sc := rc.Sc
	curve := sc.Str("curve", "ed")
	r := rand.New(rand.NewPCG(seedFor(sc.Seed, sc.Run, "sessions-race"), 71))
	var edKeys []edkg.LocalPartySaveData
	var ecKeys []eckg.LocalPartySaveData
	var pids tss.SortedPartyIDs
	var pub Pt
	n, t := sc.Int("n", 3), sc.Int("t", 1)
	if curve == "ed" {
		idk := idKeys(idRand("key", n, sc.Int("idpool", 0)), "small", n, Ed.Order(), 0)
		k, p, ok := rc.EdKeygenQuiet("keygen", idk, t)
		if !ok {
			return
		}
		edKeys, pids = k, p
		pub = pt(k[0].EDDSAPub.X(), k[0].EDDSAPub.Y())
	} else {
		n, t = 5, 2
		k, err := LoadECFixtures()
		if err != nil {
			rc.Fail("harness", "fixtures: %v", err)
			return
		}
		ecKeys = make([]eckg.LocalPartySaveData, len(k))
		ks := make([]*big.Int, len(k))
		for i := range k {
			ecKeys[i] = cloneECKey(k[i])
			ks[i] = k[i].ShareID
		}
		pids = MakePIDs("p", ks)
		pub = pt(k[0].ECDSAPub.X(), k[0].ECDSAPub.Y())
	}
	snapshot := func() []string {
		out := make([]string, n)
		for i := 0; i < n; i++ {
			var b []byte
			if curve == "ed" {
				b, _ = json.Marshal(edKeys[i])
			} else {
				b, _ = json.Marshal(ecKeys[i])
			}
			out[i] = string(b)
		}
		return out
	}
	before := snapshot()
	members := randSubset(r.IntN, n, t+1)
	spids := subsetPIDs("s", pids, members)
	S := sc.Int("sessions", 2)
	type sess struct {
		nodes []*Node
		msg   *big.Int
		sigs  []*common.SignatureData
		fail  string
	}
	ss := make([]*sess, S)
	LibConcurrency = 16
	defer func() { LibConcurrency = 2 }()
	for i := range ss {
		w := NewWorld(rc.EntropySeed(fmt.Sprintf("session-%d", i)), NewChooser(0, nil, true))
		w.Quiet = true
		w.St.RaceMode = true
		msg := big.NewInt(int64(7000 + sc.Run))
		if !sc.Bool("samemsg") {
			msg = big.NewInt(int64(7000 + 100*i + sc.Run))
		}
		s := &sess{msg: msg}
		// every session is handed the same key data objects, as an application holding one copy would
		if curve == "ed" {
			s.nodes = w.AddEdSigning(spids, edKeysFor(spids, edKeys), t, msg, 0)
		} else {
			s.nodes = w.AddECSigning(spids, ecKeysFor(spids, ecKeys), t, msg, 0, nil)
		}
		ss[i] = s
	}
	gate := make(chan struct{})
	var wg sync.WaitGroup
	for _, s := range ss {
		wg.Add(1)
		go func(s *sess) {
			defer wg.Done()
			s.sigs, s.fail = pumpSession(s.nodes, gate)
		}(s)
	}
	close(gate)
	wg.Wait()
	key := fmt.Sprintf("%s, %d concurrent sessions, signers %v", curve, S, members)
	seenR := map[string]int{}
	for i, s := range ss {
		if s.fail != "" {
			rc.Fail("concurrent-session-failed", "%s: session %d: %s", key, i, s.fail)
			return
		}
		for j, sd := range s.sigs {
			var err error
			if curve == "ed" {
				err = CheckEdDSASig(sd, pub, s.msg, 0)
			} else {
				err = CheckECDSASig(sd, pub, s.msg, 0)
			}
			if err != nil {
				rc.Fail("bad-signature", "%s: session %d signer %d: %v", key, i, j, err)
				return
			}
		}
		R := fmt.Sprintf("%x", s.sigs[0].R)
		if k, dup := seenR[R]; dup {
			rc.Fail("nonce-reuse", "%s: sessions %d and %d completed with the same nonce point R=%s", key, k, i, R)
			return
		}
		seenR[R] = i
	}
	after := snapshot()
	for i := range before {
		if before[i] != after[i] {
			rc.Fail("key-data-modified", "%s: party %d's key data differs after the sessions:\n before %s\n after  %s", key, i, firstDiff(before[i], after[i], true), firstDiff(before[i], after[i], false))
			return
		}
	}
	rc.Res.Probes["concurrent_sessions_completed"] += S
	rc.Res.Nontrivial = true
	rc.Res.LogHash = ""
	rc.Res.Sample = map[string]interface{}{"case": key, "same_message": sc.Bool("samemsg")}
}

var _ = strings.HasPrefix
