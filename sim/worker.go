package sim

import (
	"bufio"
	"encoding/json"
	"fmt"
	"os"
	"runtime"
	"sync/atomic"
	"testing"
	"time"
)

// watching is set while a scenario's bubble is running (run.go).
var watching atomic.Bool

// StallExit is the exit status of a worker whose run in progress stopped producing simulator events.
const StallExit = 97

// startStallWatchdog starts the only real-time element of a worker: a goroutine outside every bubble
// that ends the process when the run in progress has produced no simulator event (decision, step,
// entropy read, log line) for limit of real time. A goroutine blocked on a sync.Mutex is not a
// durable block for synctest, so a party that leaks its lock makes synctest.Wait wait for ever; this
// turns that into a prompt, attributable report (all goroutine stacks on stderr) instead of a
// supervisor time-out. It reads a counter and the real clock only, never anything a run depends on.
func startStallWatchdog(limit time.Duration) {
	go func() {
		last, since := progress.Load(), time.Now()
		for {
			time.Sleep(time.Second)
			if p := progress.Load(); p != last || !watching.Load() {
				last, since = p, time.Now()
				continue
			}
			if time.Since(since) > limit {
				buf := make([]byte, 4<<20)
				n := runtime.Stack(buf, true)
				fmt.Fprintf(os.Stderr, "SIM-STALL: no simulator event for %v of real time in the run in progress; goroutines:\n%s\n", limit, buf[:n])
				os.Exit(StallExit)
			}
		}
	}()
}

// Gens maps a check id to its scenario generator: (tier, seed, run index) -> scenario.
var Gens = map[string]func(tier string, seed uint64, run int) *Scenario{}

// Job is what the supervisor hands to one worker process.
type Job struct {
	Check     string      `json:"check"`
	Tier      string      `json:"tier"`
	Seed      uint64      `json:"seed"`
	Runs      []int       `json:"runs,omitempty"`
	Scenarios []*Scenario `json:"scenarios,omitempty"` // explicit scenarios (replay / minimise / matrix)
	Out       string      `json:"out"`
	DeadlineS int         `json:"deadline_s"` // stop starting new runs after this many seconds
	KeepLog   bool        `json:"keep_log"`
	StallS    int         `json:"stall_s"` // real seconds without a simulator event before the run counts as hung (0: 120)
}

// WorkerMain runs a job; one JSON line per run is appended to job.Out, preceded by a BEGIN line
// so that the supervisor can attribute a process death to the run that caused it.
func WorkerMain(t *testing.T) {
	path := os.Getenv("VERIF_JOB")
	if path == "" {
		t.Skip("VERIF_JOB not set")
	}
	raw, err := os.ReadFile(path)
	if err != nil {
		t.Fatalf("read job: %v", err)
	}
	var job Job
	if err := json.Unmarshal(raw, &job); err != nil {
		t.Fatalf("parse job: %v", err)
	}
	f, err := os.OpenFile(job.Out, os.O_CREATE|os.O_WRONLY|os.O_APPEND, 0o644)
	if err != nil {
		t.Fatalf("open out: %v", err)
	}
	defer f.Close()
	if job.StallS <= 0 {
		job.StallS = 120
	}
	startStallWatchdog(time.Duration(job.StallS) * time.Second)
	bw := bufio.NewWriter(f)
	start := time.Now()
	emit := func(sc *Scenario) {
		b, _ := json.Marshal(sc)
		fmt.Fprintf(bw, "BEGIN %s\n", b)
		bw.Flush()
		res := RunScenario(t, sc)
		if !job.KeepLog && res.Verdict == "ok" {
			res.Log = nil
		}
		rb, err := json.Marshal(res)
		if err != nil {
			rb, _ = json.Marshal(&Result{Scenario: sc, Verdict: "violation", Violation: &Violation{Class: "harness", Msg: "marshal: " + err.Error()}})
		}
		fmt.Fprintf(bw, "END %s\n", rb)
		bw.Flush()
	}
	for _, sc := range job.Scenarios {
		if job.DeadlineS > 0 && time.Since(start) > time.Duration(job.DeadlineS)*time.Second {
			break
		}
		emit(sc)
	}
	gen := Gens[job.Check]
	for _, r := range job.Runs {
		if job.DeadlineS > 0 && time.Since(start) > time.Duration(job.DeadlineS)*time.Second {
			break
		}
		if gen == nil {
			t.Fatalf("no generator for %s", job.Check)
		}
		if sc := gen(job.Tier, job.Seed, r); sc != nil {
			emit(sc)
		}
	}
}
