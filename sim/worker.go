package sim

import (
	"bufio"
	"encoding/json"
	"fmt"
	"os"
	"testing"
	"time"
)

// Gens maps a check id to its scenario generator: (tier, seed, run index) -> scenario.
var Gens = map[string]func(tier string, seed uint64, run int) *Scenario{}

// Job is what the supervisor hands to one worker process.
type Job struct {
	Check     string      `json:"check"`
	Tier      string      `json:"tier"`
	Seed      uint64      `json:"seed"`
	Runs      []int       `json:"runs,omitempty"`
	Scenarios []*Scenario `json:"scenarios,omitempty"` // explicit scenarios (replay / minimise / matrix)
	Out       string      `json:"out"`
	DeadlineS int         `json:"deadline_s"` // stop starting new runs after this many seconds
	KeepLog   bool        `json:"keep_log"`
}

// WorkerMain runs a job; one JSON line per run is appended to job.Out, preceded by a BEGIN line
// so that the supervisor can attribute a process death to the run that caused it.
func WorkerMain(t *testing.T) {
	path := os.Getenv("VERIF_JOB")
	if path == "" {
		t.Skip("VERIF_JOB not set")
	}
	raw, err := os.ReadFile(path)
	if err != nil {
		t.Fatalf("read job: %v", err)
	}
	var job Job
	if err := json.Unmarshal(raw, &job); err != nil {
		t.Fatalf("parse job: %v", err)
	}
	f, err := os.OpenFile(job.Out, os.O_CREATE|os.O_WRONLY|os.O_APPEND, 0o644)
	if err != nil {
		t.Fatalf("open out: %v", err)
	}
	defer f.Close()
	bw := bufio.NewWriter(f)
	start := time.Now()
	emit := func(sc *Scenario) {
		b, _ := json.Marshal(sc)
		fmt.Fprintf(bw, "BEGIN %s\n", b)
		bw.Flush()
		res := RunScenario(t, sc)
		if !job.KeepLog && res.Verdict == "ok" {
			res.Log = nil
		}
		rb, err := json.Marshal(res)
		if err != nil {
			rb, _ = json.Marshal(&Result{Scenario: sc, Verdict: "violation", Violation: &Violation{Class: "harness", Msg: "marshal: " + err.Error()}})
		}
		fmt.Fprintf(bw, "END %s\n", rb)
		bw.Flush()
	}
	for _, sc := range job.Scenarios {
		if job.DeadlineS > 0 && time.Since(start) > time.Duration(job.DeadlineS)*time.Second {
			break
		}
		emit(sc)
	}
	gen := Gens[job.Check]
	for _, r := range job.Runs {
		if job.DeadlineS > 0 && time.Since(start) > time.Duration(job.DeadlineS)*time.Second {
			break
		}
		if gen == nil {
			t.Fatalf("no generator for %s", job.Check)
		}
		if sc := gen(job.Tier, job.Seed, r); sc != nil {
			emit(sc)
		}
	}
}
