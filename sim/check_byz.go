package sim

import (
	"bytes"
	"fmt"
	"math/big"
	"math/rand/v2"
	"sort"
	"strings"

	"google.golang.org/protobuf/proto"
	"google.golang.org/protobuf/reflect/protoreflect"

	"github.com/bnb-chain/tss-lib/v2/common"
	eckg "github.com/bnb-chain/tss-lib/v2/ecdsa/keygen"
	"github.com/bnb-chain/tss-lib/v2/tss"
)

// Byzantine-node fault injection: one designated node B per run alters one field of one of its
// outgoing messages (after honest generation). Shared by C05, C06, C12, C13, C15.

func init() {
	Drivers["byz"] = driveByz
	Gens["C05"] = func(tier string, seed uint64, run int) *Scenario {
		// wrong-secret, under-sized-parameter and duplicated-parameter parties (real parties running on
		// corrupted inputs) are part of the property's quantifier: a fixed share of the runs
		inputs := []string{"bob-wc/wrong-share", "bob-wc/others-share", "params/ntilde-2047-bits", "params/paillier-2047-bits", "dln/h1-equals-h2", "dln/h2-unrelated-square", "fac/256-bit-factor"}
		every := 9
		if tier == "thorough" {
			every = 40
		}
		if run%every == every-1 {
			want := inputs[(run/every)%len(inputs)]
			for i, a := range c11Catalogue() {
				if a.ID == want {
					sc := genC11(tier, seed, i)
					sc.Check, sc.Run = "C05", run
					return sc
				}
			}
		}
		return cellScenario("C05", tier, seed, run-run/every)
	}
	Gens["C06"] = func(tier string, seed uint64, run int) *Scenario {
		// field-level matrix cells and wire-level junk runs share the check
		if tier == "quick" {
			if run%2 == 1 {
				return genJunk("C06", tier, seed, run/2)
			}
			return cellScenario("C06", tier, seed, run/2)
		}
		if sc := cellScenario("C06", tier, seed, run); sc != nil {
			return sc
		}
		key := "C06/" + tier
		if j := run - len(cellCache[key]); j < 1500 {
			return genJunk("C06", tier, seed, j)
		}
		return nil
	}
	Gens["C12"] = func(tier string, seed uint64, run int) *Scenario {
		// the proof-level exchanges (check_c12b.go) come first: they are cheap and complete per system
		if np := proofTamperRuns(tier); run < np {
			return genProofTamper(tier, seed, run)
		} else {
			run -= np
		}
		sc := cellScenario("C12", tier, seed, run)
		if sc != nil {
			sc.Run += proofTamperRuns(tier)
			sc.P["must_reject"] = true
		}
		return sc
	}
}

// notCovered: fields for which the protocol gives the receiver no attributable check
// (DESIGN.md appendix B). Everything else a message carries is covered.
var notCovered = map[string]string{
	"ecdsa.signing.SignRound3Message.theta":        "no proof exists for theta; detected late, unattributable",
	"ecdsa.signing.SignRound9Message.s":            "only the final signature check sees it",
	"eddsa.signing.SignRound3Message.s":            "only the final signature check sees it",
	"ecdsa.resharing.DGRound1Message.ecdsa_pub_x":  "only member 0's copy is read; caught by V_0 != y without attribution",
	"ecdsa.resharing.DGRound1Message.ecdsa_pub_y":  "same",
	"eddsa.resharing.DGRound1Message.eddsa_pub_x":  "same",
	"eddsa.resharing.DGRound1Message.eddsa_pub_y":  "same",
	"ecdsa.resharing.DGRound1Message.ssid":         "cannot be attributed without a majority rule",
}

type byzConfig struct {
	P  map[string]interface{}
	Bs []int // candidate positions of B (node indices)
}

func byzConfigs(tier string) []byzConfig {
	return []byzConfig{
		{P: map[string]interface{}{"proto": "ed-keygen", "n": 3, "t": 1}, Bs: []int{0, 2}},
		{P: map[string]interface{}{"proto": "ed-sign", "n": 3, "t": 1, "signers": 3, "msg": "b32"}, Bs: []int{1, 0}},
		{P: map[string]interface{}{"proto": "ed-reshare", "n": 2, "t": 1, "oldpart": 2, "newn": 3, "newt": 1}, Bs: []int{0, 2, 1, 4}},
		{P: map[string]interface{}{"proto": "ec-keygen", "n": 2, "t": 1}, Bs: []int{0, 1}},
		{P: map[string]interface{}{"proto": "ec-sign", "keysrc": "fixture", "signers": 3, "msg": "random"}, Bs: []int{1, 2}},
		{P: map[string]interface{}{"proto": "ec-reshare", "keysrc": "fixture", "oldpart": 3, "newn": 2, "newt": 1}, Bs: []int{0, 3, 2}},
	}
}

func cfgInt(p map[string]interface{}, k string, d int) int {
	switch v := p[k].(type) {
	case int:
		return v
	case float64:
		return int(v)
	}
	return d
}

// roleOfIndex tells the committee of node index b in a config.
func roleOfIndex(p map[string]interface{}, b int) string {
	if strings.HasSuffix(p["proto"].(string), "reshare") {
		if b < cfgInt(p, "oldpart", 2) {
			return "old"
		}
		return "new"
	}
	return "all"
}

// listLen gives the length of a repeated field for a config (static knowledge of the message
// layouts, asserted against real messages at run time: a mismatch is reported as harness trouble).
func listLen(p map[string]interface{}, typ, field string) int {
	t := cfgInt(p, "t", 1)
	if strings.HasSuffix(p["proto"].(string), "reshare") {
		t = cfgInt(p, "newt", 1)
	}
	switch field {
	case "dlnproof_1", "dlnproof_2":
		return 258
	case "modProof":
		return 163
	case "facProof":
		return 11
	case "paillier_proof":
		return 13
	case "range_proof_alice":
		return 6
	case "proof_bob":
		return 10
	case "proof_bob_wc":
		return 12
	case "v_decommitment":
		return 1 + 2*(t+1)
	case "de_commitment":
		switch {
		case strings.Contains(typ, "keygen"):
			return 1 + 2*(t+1)
		case strings.HasSuffix(typ, "SignRound4Message"), strings.HasSuffix(typ, "eddsa.signing.SignRound2Message"):
			return 3
		default:
			return 5
		}
	}
	return 1
}

var proofFields = map[string]bool{"dlnproof_1": true, "dlnproof_2": true, "modProof": true, "facProof": true, "paillier_proof": true,
	"range_proof_alice": true, "proof_bob": true, "proof_bob_wc": true, "proof_alpha_x": true, "proof_alpha_y": true, "proof_t": true,
	"v_proof_alpha_x": true, "v_proof_alpha_y": true, "v_proof_t": true, "v_proof_u": true}

type Cell struct {
	Cfg  int
	Spec TamperSpec
}

// "+q": the same residue modulo the group order in a non-canonical representation (a deviating party may
// send it; the honest parties must still reject or produce canonical, valid output)
// "neg": the additive inverse modulo the group order (for a share or exponent: the value whose image is the
// negated point, which has the same x coordinate on a Weierstrass curve)
var c05Kinds = []string{"+1", "rand", "other", "empty", "+q", "neg"}
var c06Kinds = []string{"zero", "empty", "one", "q-1", "q", "q+1", "2q", "N-1", "N", "N+1", "N2", "2^256", "2^2048", "2^63", "2^64-1", "huge", "flip-low", "flip-high", "lead-zero", "p", "p+x", "neg"}
var c12Kinds = []string{"+1", "-1", "rand", "swap", "zero", "neg", "neg-p"}

// indexPlan chooses which elements of a list get which kinds.
func indexPlan(n int, tier string, kinds []string, fullKind string) map[int][]string {
	out := map[int][]string{}
	few := []int{0, 1, 2, n / 2, n - 2, n - 1}
	if n > 140 {
		few = append(few, 128, 129, 130) // around the second length prefix of the 2x128 layouts
	}
	if n <= 16 {
		for i := 0; i < n; i++ {
			out[i] = kinds
		}
		return out
	}
	for _, i := range few {
		if i >= 0 && i < n {
			out[i] = kinds
		}
	}
	if tier == "thorough" && fullKind != "" {
		for i := 0; i < n; i++ {
			if _, ok := out[i]; !ok {
				out[i] = []string{fullKind}
			}
		}
	}
	return out
}

// EnumCells lists the fault space of a check for a tier.
func EnumCells(check, tier string) ([]Cell, []byzConfig) {
	cfgs := byzConfigs(tier)
	var cells []Cell
	for ci, cfg := range cfgs {
		bs := cfg.Bs
		if tier == "quick" && len(bs) > 2 {
			bs = bs[:2]
		}
		m := Models[modelName(cfg.P["proto"].(string))]
		for _, row := range m.Rows {
			bi := -1
			for _, b := range bs {
				role := roleOfIndex(cfg.P, b)
				if row.Who != "all" && row.Who != role {
					continue
				}
				bi++ // bi counts the positions that can send this row
				if check == "C12" && bi == 0 {
					// commitment/response shift attacks on the proofs this message carries
					for _, k := range shiftKinds[row.Type] {
						cells = append(cells, Cell{Cfg: ci, Spec: TamperSpec{B: b, Type: row.Type, Field: "*", Index: -1, Kind: k, Rcpt: -1}})
					}
				}
				for _, f := range FieldsOf(row.Type) {
					isProof := proofFields[f.Name]
					add := func(idx int, kind string) {
						cells = append(cells, Cell{Cfg: ci, Spec: TamperSpec{B: b, Type: row.Type, Field: f.Name, Index: idx, Kind: kind, Rcpt: -1}})
					}
					// openings B has committed to (the hash check passes, the value reaches the code behind it)
					if _, isOpening := commitPairs[row.Type+"."+f.Name]; isOpening && bi == 0 && (check == "C05" || check == "C06" || check == "C15") {
						if !(check == "C15" && strings.Contains(row.Type, "signing")) {
							ed := strings.HasPrefix(cfg.P["proto"].(string), "ed")
							for _, s := range cmKinds(ed, listLen(cfg.P, row.Type, f.Name)) {
								if check == "C15" && strings.Contains(s.Kind, "add-torsion") {
									continue // equivalent in the prime-order group after cofactor clearing: may be accepted
								}
								if check == "C15" && s.Index == 0 && s.Kind == "cm:+1" {
									// element 0 of an opening is the commitment's blinding value, not a VSS commitment:
									// a dealer that commits to another blinding value has not altered anything C15 speaks of
									continue
								}
								add(s.Index, s.Kind)
							}
						}
					}
					// a point-to-point message altered for ONE recipient only (the other honest parties get the
					// honest copy and carry on): two recipients per field
					if !row.Bcast && bi == 0 && (check == "C05" || check == "C06") {
						nodes, r0 := cfgInt(cfg.P, "n", 0), 0
						switch {
						case strings.HasSuffix(cfg.P["proto"].(string), "reshare"):
							// every point-to-point message of resharing goes to a new member
							r0 = cfgInt(cfg.P, "oldpart", 2)
							nodes = r0 + cfgInt(cfg.P, "newn", 2)
						case strings.HasSuffix(cfg.P["proto"].(string), "sign"):
							nodes = cfgInt(cfg.P, "signers", 3)
						}
						kinds := []string{"+1"}
						if check == "C06" {
							kinds = []string{"zero", "flip-low"}
						}
						idx := -1
						if f.List {
							idx = 0
						}
						cnt := 0
						for r := r0; r < nodes && cnt < 2 && nodes > 2; r++ {
							if r == b {
								continue
							}
							cnt++
							for _, k := range kinds {
								cells = append(cells, Cell{Cfg: ci, Spec: TamperSpec{B: b, Type: row.Type, Field: f.Name, Index: idx, Kind: k, Rcpt: r}})
							}
						}
					}
					if check == "C06" && bi == 0 && f.Name == "theta" {
						add(-1, "neg-sum-others") // crafted relation: the thetas sum to zero
					}
					switch check {
					case "C05":
						if bi > 0 && isProof && listLen(cfg.P, row.Type, f.Name) > 16 {
							continue // long proofs are walked for the first position only (C12 walks them fully)
						}
						if !f.List {
							for _, k := range c05Kinds {
								add(-1, k)
							}
							if strings.HasSuffix(f.Name, "_x") {
								add(-1, "pt2-double") // a point carried in two fields replaced by another valid point
							}
							continue
						}
						n := listLen(cfg.P, row.Type, f.Name)
						for idx, ks := range indexPlan(n, "quick", []string{"+1", "rand", "other"}, "") {
							for _, k := range ks {
								add(idx, k)
							}
						}
						add(n-1, "remove")
						add(0, "remove")
						add(-1, "append")
						add(-1, "clear")
					case "C06":
						if bi > 0 {
							continue
						}
						if !f.List {
							for _, k := range c06Kinds {
								add(-1, k)
							}
							continue
						}
						n := listLen(cfg.P, row.Type, f.Name)
						for idx, ks := range indexPlan(n, "quick", c06Kinds, "") {
							for _, k := range ks {
								add(idx, k)
							}
						}
						add(n-1, "remove")
						add(0, "remove")
						add(-1, "append")
						add(-1, "clear")
						add(-1, "truncate1")
					case "C13":
						// MtA ciphertexts in flight
						if bi > 0 || !(f.Name == "c" || f.Name == "c1" || f.Name == "c2") {
							continue
						}
						for _, k := range []string{"+1", "-1", "rand", "other", "N2", "zero", "+N"} {
							add(-1, k)
						}
					case "C15":
						// dealt shares and their (de)commitments, dealer = B
						isShare := f.Name == "share"
						isCmt := f.Name == "de_commitment" || f.Name == "v_decommitment" || (f.Name == "commitment" && strings.Contains(row.Type, "Round1")) || f.Name == "v_commitment"
						if !(isShare || isCmt) || strings.Contains(row.Type, "signing") {
							continue
						}
						if !f.List {
							for _, k := range []string{"+1", "-1", "rand", "other", "zero", "neg"} {
								add(-1, k)
							}
							continue
						}
						n := listLen(cfg.P, row.Type, f.Name)
						for idx := 0; idx < n; idx++ {
							for _, k := range []string{"+1", "rand", "other"} {
								add(idx, k)
							}
						}
						add(n-1, "remove")
						add(-1, "append")
						add(1, "swap")
					case "C12":
						if !isProof || bi > 0 {
							continue
						}
						if !f.List {
							for _, k := range c12Kinds {
								if k != "swap" {
									add(-1, k)
								}
							}
							continue
						}
						n := listLen(cfg.P, row.Type, f.Name)
						for idx, ks := range indexPlan(n, tier, c12Kinds, "+1") {
							for _, k := range ks {
								add(idx, k)
							}
						}
					}
				}
			}
		}
	}
	sort.SliceStable(cells, func(i, j int) bool {
		a, b := cells[i], cells[j]
		if a.Cfg != b.Cfg {
			return a.Cfg < b.Cfg
		}
		return a.Spec.ID("") < b.Spec.ID("")
	})
	return cells, cfgs
}

var cellCache = map[string][]Cell{}
var cfgCache = map[string][]byzConfig{}

// cellScenario maps a run index to a cell: thorough walks the list, quick samples it by seed with
// one stratum per (config, message type).
func cellScenario(check, tier string, seed uint64, run int) *Scenario {
	key := check + "/" + tier
	if _, ok := cellCache[key]; !ok {
		cellCache[key], cfgCache[key] = EnumCells(check, tier)
	}
	cells, cfgs := cellCache[key], cfgCache[key]
	origRun := run
	var c Cell
	if tier == "thorough" {
		if run >= len(cells) {
			return nil
		}
		c = cells[run]
	} else if prio := shiftCells(check, cells); run < len(prio) {
		// the (few) commitment/response shift attacks are part of every quick run
		c = prio[run]
	} else {
		run -= len(shiftCells(check, cells))
		groups := map[string][]int{}
		var order []string
		for i, x := range cells {
			g := fmt.Sprintf("%d/%s", x.Cfg, x.Spec.Type)
			if _, ok := groups[g]; !ok {
				order = append(order, g)
			}
			groups[g] = append(groups[g], i)
		}
		g := groups[order[run%len(order)]]
		c = cells[g[int(seedFor(seed, check, run, "cell")%uint64(len(g)))]]
	}
	p := map[string]interface{}{}
	for k, v := range cfgs[c.Cfg].P {
		p[k] = v
	}
	p["b"], p["ttype"], p["tfield"], p["tidx"], p["tkind"], p["trcpt"] = c.Spec.B, c.Spec.Type, c.Spec.Field, c.Spec.Index, c.Spec.Kind, c.Spec.Rcpt
	p["oracle"] = check
	p["cells_total"] = len(cells)
	sched := SchedConfig{Strategy: "fifo"}
	// (committed openings and shift attacks are built from a FIFO reference run of the same scenario and stay
	// valid only while the run reproduces that reference: those cells keep FIFO delivery)
	if (check == "C05" || check == "C06") && !strings.HasPrefix(c.Spec.Kind, "cm:") && !strings.HasPrefix(c.Spec.Kind, "shift:") {
		// half of the cells of the two checks whose properties quantify over schedules as well run under
		// another delivery order: everything before Start, or a random order with delivery before Start
		h := seedFor(seed, check, origRun, "cell-sched")
		nodes := cfgInt(p, "n", 0)
		switch {
		case strings.HasSuffix(p["proto"].(string), "reshare"):
			nodes = cfgInt(p, "oldpart", 2) + cfgInt(p, "newn", 2)
		case strings.HasSuffix(p["proto"].(string), "sign"):
			nodes = cfgInt(p, "signers", 3)
		}
		victim := int(h>>8) % nodes
		if victim == c.Spec.B {
			victim = (victim + 1) % nodes
		}
		switch h % 4 {
		case 2:
			// the victim starts last, with everything the others could send already delivered to it
			sched = SchedConfig{Strategy: "prestart-flood", PreStart: true, Victim: victim}
		case 3:
			sched = SchedConfig{Strategy: "random", PreStart: true, Victim: victim}
		}
		if c.Spec.Rcpt >= 0 && (check == "C06" || h%2 == 0) {
			// a message altered for one recipient only: that recipient is the late starter
			sched = SchedConfig{Strategy: "prestart-flood", PreStart: true, Victim: c.Spec.Rcpt}
		}
	}
	return &Scenario{Check: check, Kind: "byz", Seed: seed, Run: origRun, P: p, Sched: sched}
}

func shiftCells(check string, cells []Cell) []Cell {
	var out []Cell
	seen := map[string]bool{}
	for _, c := range cells {
		// C06: an opening with one whole point fewer or more (still consistent with its commitment) reaches
		// the index arithmetic behind the hash check; one such cell per message type and direction
		// C06: a first-round message altered for one recipient who starts last and is driven on after the
		// error it reports (the catch-up path of Start, then the rounds after an abort)
		// C05: a public key carried in two fields replaced by another valid point in a resharing announcement
		if check == "C05" && c.Spec.Kind == "pt2-double" && strings.Contains(c.Spec.Type, "resharing") {
			out = append(out, c)
		}
		if check == "C06" && c.Spec.Rcpt >= 0 && c.Spec.Kind == "flip-low" && strings.HasSuffix(c.Spec.Type, "SignRound1Message1") {
			out = append(out, c)
		}
		if check == "C06" && (c.Spec.Kind == "cm:pt-remove" || c.Spec.Kind == "cm:pt-dup") {
			if k := c.Spec.Type + c.Spec.Kind; !seen[k] {
				seen[k] = true
				out = append(out, c)
			}
		}
		if strings.HasPrefix(c.Spec.Kind, "shift:") {
			out = append(out, c)
		}
		// a non-canonical representative of the right residue in a value nothing checks before the output is
		// assembled (signature shares): the few such cells are part of every quick run as well
		if _, nc := notCovered[c.Spec.Type+"."+c.Spec.Field]; nc && c.Spec.Kind == "+q" && strings.Contains(c.Spec.Type, "signing") {
			out = append(out, c)
		}
	}
	return out
}

// culpritNodes resolves an error's culprits to node names.
func (w *World) culpritNodes(culprits []*big.Int) []string {
	var out []string
	for _, k := range culprits {
		name := fmt.Sprintf("key:%x", k)
		for _, n := range w.Nodes {
			if n.PID.KeyInt().Cmp(k) == 0 {
				name = n.Name
			}
		}
		out = append(out, name)
	}
	sort.Strings(out)
	return out
}

type pendingEm struct {
	em *Emission
}

func driveByz(rc *RunCtx) {
	sc := rc.Sc
	pr := rc.SetupProto("main", false)
	if pr == nil {
		return
	}
	w := pr.W
	spec := &TamperSpec{B: sc.Int("b", 0), Type: sc.Str("ttype", ""), Field: sc.Str("tfield", ""), Index: sc.Int("tidx", -1), Kind: sc.Str("tkind", "+1"), Rcpt: sc.Int("trcpt", -1)}
	oracle := sc.Str("oracle", "C05")
	if spec.B >= len(w.Nodes) {
		rc.Fail("harness", "B=%d out of range", spec.B)
		return
	}
	B := w.Nodes[spec.B]
	B.Byz = true
	cellID := spec.ID(pr.Proto)
	trng := rand.New(rand.NewPCG(seedFor(sc.Seed, cellID, "tamper"), 13))
	g := pr.group()
	ctx := &TamperCtx{Q: g.Order(), EdCurve: pr.Curve == "ed", Rand: func(n int) []byte {
		b := make([]byte, n)
		for i := range b {
			b[i] = byte(trng.UintN(256))
		}
		return b
	}}
	if pr.Curve == "ed" {
		ctx.P = Ed.p
	} else {
		ctx.P = Secp.p
		// default modulus context: the sender's Paillier modulus as the others know it
		if pr.ecKeys != nil {
			for i := range pr.ecKeys {
				if pr.ecKeys[i].ShareID.Cmp(B.PID.KeyInt()) == 0 && pr.ecKeys[i].PaillierSK != nil {
					ctx.ModN = pr.ecKeys[i].PaillierSK.N
				}
			}
		}
	}
	fired := 0
	shiftNote := ""
	lenMismatch := ""
	var others = map[string]proto.Message{} // latest message of each type from a non-B node
	var othersAll = map[string][]proto.Message{}
	var held []*Emission
	needOther := spec.Kind == "other" || spec.Kind == "other-all"
	negSum := spec.Kind == "neg-sum-others"
	needAll := 0
	if negSum {
		for _, n := range w.Nodes {
			if n != B && n.Committee == B.Committee {
				needAll++
			}
		}
	}
	// consistent commitment tampering ("cm:<kind>"): B alters a value of its decommitment AND commits to
	// the altered opening in the earlier round, so that the hash check passes and the value reaches
	// the code behind it. The honest opening is taken from a replica run (same scenario, same entropy).
	var cmCommitType, cmCommitField string
	var cmNewC, cmNewD []byte
	if strings.HasPrefix(spec.Kind, "cm:") {
		pair, ok := commitPairs[spec.Type+"."+spec.Field]
		if !ok {
			rc.Fail("harness", "no commitment is paired with %s.%s", spec.Type, spec.Field)
			return
		}
		cmCommitType, cmCommitField = pair[0], pair[1]
		ref := rc.SetupProto("cm-replica", true)
		if ref == nil {
			return
		}
		ref.W.RunSchedule(&SchedConfig{Strategy: "fifo", MaxSteps: 4000})
		var honest []byte
		for _, em := range ref.W.Nodes[spec.B].Emitted {
			if em.Type == spec.Type {
				honest = em.Wire
			}
		}
		if honest == nil {
			rc.Fail("harness", "replica run: %s never sent %s", B.Name, spec.Type)
			return
		}
		inner := *spec
		inner.Kind = spec.Kind[3:]
		nd, changed, err := ApplyTamper(honest, &inner, ctx)
		if err != nil {
			rc.Fail("harness", "tamper: %v", err)
			return
		}
		if changed {
			m, _ := decodeAny(nd)
			var ints []*big.Int
			for i := 0; i < listLenOf(m, spec.Field); i++ {
				b, _ := getField(m, spec.Field, i)
				ints = append(ints, new(big.Int).SetBytes(b))
			}
			if len(ints) == 0 {
				ints = []*big.Int{big.NewInt(0)}
			}
			cmNewD = nd
			cmNewC = common.SHA512_256i(ints...).Bytes()
		}
	}
	applyAndSend := func(em *Emission) []byte {
		ctx.Other = others[em.Type]
		if negSum {
			sum := big.NewInt(0)
			for _, m := range othersAll[em.Type] {
				b, _ := getField(m, spec.Field, -1)
				sum.Add(sum, new(big.Int).SetBytes(b))
			}
			v := new(big.Int).Mod(sum.Neg(sum), ctx.Q)
			nw, err := setBytesField(em.Wire, spec.Field, v.Bytes())
			if err != nil {
				rc.Fail("harness", "tamper: %v", err)
				return em.Wire
			}
			fired++
			w.Faults["tamper:neg-sum-others"]++
			w.Logf("FAULT %s sends %s = -(sum of the others') after seeing theirs", B.Name, spec.Field)
			return nw
		}
		if strings.HasPrefix(spec.Kind, "shift:") {
			sc2 := &ShiftCtx{Curve: pr.Curve, Q: ctx.Q, D: new(big.Int).SetUint64(uint64(7 + trng.IntN(1<<20)))}
			// the verifier's ring-Pedersen parameters
			switch {
			case strings.Contains(em.Type, "signing") && pr.Curve == "ec" && len(em.To) == 1:
				ids := make(tss.SortedPartyIDs, len(w.Nodes))
				for i, n := range w.Nodes {
					ids[i] = n.PID
				}
				sub := eckg.BuildLocalSaveDataSubset(pr.signKeys[spec.B], ids)
				j := w.Nodes[em.To[0]].PID.Index
				sc2.NT, sc2.H1, sc2.H2 = sub.NTildej[j], sub.H1j[j], sub.H2j[j]
			case em.Type == "ecdsa.keygen.KGRound2Message1" || em.Type == "ecdsa.resharing.DGRound4Message1":
				src := "ecdsa.keygen.KGRound1Message"
				if strings.Contains(em.Type, "resharing") {
					src = "ecdsa.resharing.DGRound2Message1"
				}
				// the recipient's announcement (with two parties / two new members: the only other one)
				rcpt := w.Nodes[em.To[0]]
				for _, e2 := range rcpt.Emitted {
					if e2.Type == src {
						sc2.NT, sc2.H1, sc2.H2 = bi(bytesField(e2.Wire, "n_tilde")), bi(bytesField(e2.Wire, "h1")), bi(bytesField(e2.Wire, "h2"))
					}
				}
				for _, e2 := range B.Emitted {
					if e2.Type == src {
						sc2.N0 = bi(bytesField(e2.Wire, "paillier_n"))
					}
				}
				if em.Type == "ecdsa.keygen.KGRound2Message1" {
					var pkeys []*big.Int
					for _, n := range w.Nodes {
						pkeys = append(pkeys, n.PID.KeyInt())
					}
					ecp := tss.S256().Params()
					l := append([]*big.Int{ecp.P, ecp.N, ecp.Gx, ecp.Gy}, pkeys...)
					l = append(l, big.NewInt(1), big.NewInt(0))
					sc2.Session = ctxBytes(common.SHA512_256i(l...).Bytes(), B.PID.Index)
				}
			}
			nw, ok, why := applyShift(em.Wire, spec.Kind, sc2)
			if !ok {
				shiftNote = why
				return em.Wire
			}
			fired++
			w.Faults["tamper:shift"]++
			w.Logf("FAULT %s shifts a commitment and its response together (%s) in %s to %v", B.Name, spec.Kind, em.Type, em.To)
			return nw
		}
		// layout assertion for the static list-length table
		if m, err := decodeAny(em.Wire); err == nil {
			if n := listLenOf(m, spec.Field); n >= 0 {
				if want := listLen(sc.P, em.Type, spec.Field); want != n {
					lenMismatch = fmt.Sprintf("%s.%s has %d elements, table says %d", em.Type, spec.Field, n, want)
				}
			}
		}
		nw, changed, err := ApplyTamper(em.Wire, spec, ctx)
		if err != nil {
			rc.Fail("harness", "tamper: %v", err)
			return em.Wire
		}
		if changed {
			fired++
			w.Faults["tamper:"+spec.Kind]++
			w.Logf("FAULT tamper %s on %s from %s to %v: wire %s -> %s", spec.Kind, spec.Field, B.Name, em.To, shortHash(em.Wire), shortHash(nw))
		}
		return nw
	}
	// C06, one-recipient cells: a second party of B's committee deviates in the same way towards the same
	// recipient, so that the victim meets more than one bad message of a type in one round (error paths that
	// collect one report per failing peer)
	var B2 *Node
	if oracle == "C06" && spec.Rcpt >= 0 && !strings.HasPrefix(spec.Kind, "cm:") && !strings.HasPrefix(spec.Kind, "shift:") {
		for _, n := range w.Nodes {
			if n != B && n.Idx != spec.Rcpt && n.Committee == B.Committee {
				B2 = n
				B2.Byz = true
				break
			}
		}
	}
	w.Intercept = func(from *Node, em *Emission) ([]byte, bool) {
		if B2 != nil && from == B2 && em.Type == spec.Type && len(em.To) == 1 && em.To[0] == spec.Rcpt {
			if nw, changed, err := ApplyTamper(em.Wire, spec, ctx); err == nil && changed {
				w.Faults["tamper-by-second-party:"+spec.Kind]++
				w.Logf("FAULT tamper %s on %s from %s (second deviating party) to %v", spec.Kind, spec.Field, B2.Name, em.To)
				return nw, true
			}
		}
		if from != B {
			if m, err := decodeAny(em.Wire); err == nil {
				others[em.Type] = m
				if em.Type == spec.Type {
					othersAll[em.Type] = append(othersAll[em.Type], m)
				}
			}
			if negSum && len(othersAll[spec.Type]) < needAll {
				return em.Wire, true
			}
			if em.Type == spec.Type && len(held) > 0 {
				hs := held
				held = nil
				for _, h := range hs {
					w.SendEmission(B, h, applyAndSend(h))
				}
			}
			return em.Wire, true
		}
		if cmNewD != nil {
			switch em.Type {
			case cmCommitType:
				nw, err := setBytesField(em.Wire, cmCommitField, cmNewC)
				if err != nil {
					rc.Fail("harness", "tamper: %v", err)
					return em.Wire, true
				}
				w.Logf("FAULT %s commits to an altered opening (%s)", B.Name, spec.Kind)
				return nw, true
			case spec.Type:
				fired++
				w.Faults["tamper:"+spec.Kind]++
				w.Logf("FAULT %s opens its commitment to the altered values (%s on %s[%d])", B.Name, spec.Kind, spec.Field, spec.Index)
				return cmNewD, true
			}
			return em.Wire, true
		}
		if em.Type != spec.Type || strings.HasPrefix(spec.Kind, "cm:") {
			return em.Wire, true
		}
		if spec.Rcpt >= 0 && !(len(em.To) == 1 && em.To[0] == spec.Rcpt) {
			return em.Wire, true
		}
		if negSum && len(othersAll[em.Type]) < needAll {
			held = append(held, em)
			w.Probes["byz_message_held_for_rushing"]++
			return nil, false
		}
		if needOther && others[em.Type] == nil {
			held = append(held, em)
			w.Probes["byz_message_held_for_mirror"]++
			return nil, false
		}
		return applyAndSend(em), true
	}
	// an honest application tears a party down after its first error; under the C06 oracle every second
	// cell keeps delivering to it instead ("at any point of any protocol" includes a party that has
	// already reported an error)
	keepDriving := oracle == "C06" && (spec.Rcpt >= 0 || seedFor(sc.Seed, cellID, "keep-driving")%2 == 0)
	w.AfterStep = append(w.AfterStep, func(ev *StepEvent) *Violation {
		if ev.Err != nil && ev.Node != B && !keepDriving {
			ev.Node.Silenced = true
		}
		return nil
	})
	cellSched := sc.Sched
	if cellSched.Strategy == "" {
		cellSched.Strategy = "fifo"
	}
	cellSched.MaxSteps = 4000
	w.RunSchedule(&cellSched)
	if len(held) > 0 {
		// no honest message of that type ever appeared (B was the only sender): release unchanged
		hs := held
		held = nil
		for _, h := range hs {
			w.SendEmission(B, h, h.Wire)
		}
		w.RunSchedule(&SchedConfig{Strategy: "fifo", MaxSteps: 4000})
	}
	if rc.Res.Violation != nil && rc.Res.Violation.Class == "harness" {
		return
	}
	if lenMismatch != "" {
		rc.Fail("harness", "message layout table is stale: %s", lenMismatch)
		return
	}
	rc.Res.Cells = map[string]string{}
	outcome := "unchanged"
	defer func() {
		rc.Res.Cells[cellID] = outcome
		rc.Res.Nontrivial = fired > 0
		if rc.Res.Sample == nil {
			rc.Res.Sample = map[string]interface{}{"cell": cellID, "outcome": outcome, "fired": fired}
		}
	}()
	// crash classes
	if w.Violation != nil {
		v := w.Violation
		outcome = "crash:" + v.Class
		if oracle == "C06" {
			site := ""
			for _, ev := range w.Events {
				if ev.Outcome.Panic != nil {
					site = PanicSite(ev.Outcome.Stack)
				}
			}
			v.Key = fmt.Sprintf("%s@%s#%s.%s", v.Class, stripLine(site), spec.Type, spec.Field)
			return
		}
		// other oracles: a recovered crash is C06's business; keep evaluating outputs
		w.Violation = nil
		rc.Res.Probes["crash_seen_(C06_scope)"]++
	}
	if fired == 0 {
		if shiftNote != "" {
			outcome = "not_constructible"
			rc.Note("shift not built: %s", shiftNote)
		}
		return
	}
	if oracle == "C06" {
		outcome = "survived"
		return
	}
	// ---- C05 rules ----
	var honest []*Node
	for _, n := range w.Nodes {
		if n != B {
			honest = append(honest, n)
		}
	}
	covered := true
	if _, nc := notCovered[spec.Type+"."+spec.Field]; nc {
		covered = false
	}
	if (spec.Field == "facProof" || spec.Field == "modProof") && pr.NoProofs {
		covered = false
	}
	if strings.HasPrefix(spec.Kind, "cm:") && spec.Type == "ecdsa.signing.SignRound8Message" {
		// U_i, T_i are only bound by their commitment; a deviator that commits to wrong values
		// consistently is caught by sum(U) != sum(T), which cannot be attributed in GG18
		covered = false
	}
	errs := 0
	for _, n := range honest {
		for _, e := range n.Errs {
			errs++
			var ck []*big.Int
			for _, c := range e.Culprits() {
				if c != nil {
					ck = append(ck, c.KeyInt())
				}
			}
			names := dedupe(w.culpritNodes(ck)) // culprits are compared as a set
			for _, nm := range names {
				if nm != B.Name && nm != n.Name {
					outcome = "blamed-honest"
					rc.Fail("blamed-honest", "cell %s: honest %s reported an error naming %v (deviating party is %s): %s", cellID, n.Name, names, B.Name, errString(e))
					rc.Res.Violation.Key = "blamed-honest#" + spec.Type + "." + spec.Field
					return
				}
			}
			if covered && !(len(names) == 1 && names[0] == B.Name) {
				outcome = "unattributed"
				rc.Fail("covered-not-attributed", "cell %s: the altered value is covered by a commitment/share check/proof, but honest %s's error names %v instead of exactly %s: %s", cellID, n.Name, names, B.Name, errString(e))
				rc.Res.Violation.Key = "covered-not-attributed#" + spec.Type + "." + spec.Field
				return
			}
		}
	}
	// rule 1: outputs of honest nodes
	switch pr.Proto[3:] {
	case "sign":
		if !rc.CheckSigOutputs(pr.Curve, honest, pr.Pub, pr.Msg, pr.Full) {
			outcome = "bad-output"
			return
		}
	case "keygen":
		var done []*Node
		for _, n := range honest {
			if len(n.Results) > 0 {
				done = append(done, n)
			}
		}
		if len(done) > 0 {
			vs, err := pr.views(done)
			if err == nil {
				err = CheckSharingPartial(pr.group(), vs, pr.T, len(w.Nodes))
			}
			if err != nil {
				outcome = "bad-output"
				rc.Fail("bad-output", "cell %s: honest parties output inconsistent key data: %v", cellID, err)
				return
			}
		}
	case "reshare":
		var done []*Node
		for _, n := range pr.News {
			if n != B && len(n.Results) > 0 {
				done = append(done, n)
			}
		}
		if len(done) > 0 {
			vs, err := pr.views(done)
			if err == nil {
				err = CheckSharingPartial(pr.group(), vs, pr.NewT, pr.NewN)
			}
			if err == nil && !PtEq(vs[0].Pub, pr.Pub) {
				err = fmt.Errorf("new members hold a different group public key")
			}
			if err != nil {
				outcome = "bad-output"
				rc.Fail("bad-output", "cell %s: honest new members output inconsistent key data: %v", cellID, err)
				return
			}
		}
		// rule 4: an erased honest old share => every honest new member emitted valid key data
		for i, n := range pr.Olds {
			if n == B || oracle != "C05" {
				continue
			}
			if pr.oldXi(i).Sign() == 0 {
				for _, m := range pr.News {
					if m != B && len(m.Results) == 0 {
						outcome = "key-lost"
						rc.Fail("key-lost", "cell %s: honest old member %s erased its share but honest new member %s never obtained key data (all sent messages delivered)", cellID, n.Name, m.Name)
						rc.Res.Violation.Key = "key-lost#" + spec.Type + "." + spec.Field
						return
					}
				}
			}
		}
	}
	finished := 0
	for _, n := range honest {
		if len(n.Results) > 0 {
			finished++
		}
	}
	switch {
	case errs > 0:
		outcome = "rejected"
	case finished == len(honest):
		outcome = "accepted"
	default:
		outcome = "stalled"
	}
	// C12 / C15 style demand: an inequivalent alteration of a proof component must be rejected
	if sc.Bool("must_reject") && outcome == "accepted" {
		rc.Fail("altered-proof-accepted", "cell %s: the altered value was accepted: every honest party finished without reporting an error", cellID)
		rc.Res.Violation.Key = "altered-accepted#" + spec.Type + "." + spec.Field
	}
}

func stripLine(site string) string {
	if i := strings.LastIndex(site, ":"); i > 0 {
		return site[:i]
	}
	return site
}

// CheckSharingPartial: consistency of the key data of a subset of the parties (the honest ones).
func CheckSharingPartial(g Group, views []*KeyView, t, n int) error {
	if len(views) == 0 {
		return nil
	}
	q := g.Order()
	v0 := views[0]
	for _, v := range views {
		if len(v.Ks) != n || len(v.BigXj) != n {
			return fmt.Errorf("%s holds %d ids / %d public shares for %d parties", v.Owner, len(v.Ks), len(v.BigXj), n)
		}
		if !eqInts(v.Ks, v0.Ks) || !PtEq(v.Pub, v0.Pub) {
			return fmt.Errorf("public view differs between %s and %s", v0.Owner, v.Owner)
		}
		for j := range v.BigXj {
			if !PtEq(v.BigXj[j], v0.BigXj[j]) {
				return fmt.Errorf("public share point %d differs between %s and %s", j, v0.Owner, v.Owner)
			}
		}
		if v.HasECDSA && (!eqInts(v.PaillierN, v0.PaillierN) || !eqInts(v.NTilde, v0.NTilde) || !eqInts(v.H1, v0.H1) || !eqInts(v.H2, v0.H2)) {
			return fmt.Errorf("Paillier / ring-Pedersen public view differs between %s and %s", v0.Owner, v.Owner)
		}
		idx := -1
		for j, k := range v.Ks {
			if k.Cmp(v.ShareID) == 0 {
				idx = j
			}
		}
		if idx < 0 {
			return fmt.Errorf("%s: ShareID not among the ids", v.Owner)
		}
		if !PtEq(GMul(g, new(big.Int).Mod(v.Xi, q), g.Base()), v.BigXj[idx]) {
			return fmt.Errorf("%s: key share inconsistent with the group key data (share times generator != its public share point)", v.Owner)
		}
	}
	for _, s := range subsets(n, t+1, 20) {
		xs := make([]*big.Int, len(s))
		ps := make([]Pt, len(s))
		for i, j := range s {
			xs[i], ps[i] = v0.Ks[j], v0.BigXj[j]
		}
		if !PtEq(InterpolateExp(g, xs, ps), v0.Pub) {
			return fmt.Errorf("public share points of subset %v do not interpolate to the group public key", s)
		}
	}
	return nil
}

var _ = bytes.Equal

// commitPairs: decommitment field -> (message type, field) of the commitment that covers it.
var commitPairs = map[string][2]string{
	"ecdsa.keygen.KGRound2Message2.de_commitment":       {"ecdsa.keygen.KGRound1Message", "commitment"},
	"eddsa.keygen.KGRound2Message2.de_commitment":       {"eddsa.keygen.KGRound1Message", "commitment"},
	"ecdsa.signing.SignRound4Message.de_commitment":     {"ecdsa.signing.SignRound1Message2", "commitment"},
	"ecdsa.signing.SignRound6Message.de_commitment":     {"ecdsa.signing.SignRound5Message", "commitment"},
	"ecdsa.signing.SignRound8Message.de_commitment":     {"ecdsa.signing.SignRound7Message", "commitment"},
	"eddsa.signing.SignRound2Message.de_commitment":     {"eddsa.signing.SignRound1Message", "commitment"},
	"ecdsa.resharing.DGRound3Message2.v_decommitment":   {"ecdsa.resharing.DGRound1Message", "v_commitment"},
	"eddsa.resharing.DGRound3Message2.v_decommitment":   {"eddsa.resharing.DGRound1Message", "v_commitment"},
}

// cmKinds: alterations applied to an opening B has committed to (points start at odd indices).
func cmKinds(ed bool, n int) []TamperSpec {
	var out []TamperSpec
	add := func(idx int, k string) { out = append(out, TamperSpec{Index: idx, Kind: "cm:" + k}) }
	for i := 1; i+1 < n; i += 2 {
		for _, k := range []string{"+1", "pt-identity", "pt-gen-other", "pt-swapxy", "pt-x-plus-p", "pt-neg", "zero"} {
			add(i, k)
		}
		add(i+1, "+1")
		add(i+1, "zero")
		if ed {
			for _, k := range []string{"pt-torsion1", "pt-torsion2", "pt-torsion4", "pt-torsion7", "pt-add-torsion1", "pt-add-torsion4"} {
				add(i, k)
			}
		}
	}
	add(n-1, "remove")
	add(0, "remove")
	add(-1, "append")
	add(-1, "clear")
	add(-1, "truncate1")
	add(0, "+1")
	// whole points fewer / more: an opening of the wrong length whose elements are all valid points
	if n >= 3 {
		add(n-2, "pt-remove")
		add(1, "pt-remove")
	}
	add(-1, "pt-dup")
	return out
}

func setBytesField(wire []byte, field string, val []byte) ([]byte, error) {
	m, err := decodeAny(wire)
	if err != nil {
		return nil, err
	}
	r := m.ProtoReflect()
	fd := r.Descriptor().Fields().ByName(protoreflect.Name(field))
	if fd == nil || fd.IsList() {
		return nil, fmt.Errorf("no singular field %s", field)
	}
	r.Set(fd, protoreflect.ValueOfBytes(val))
	return encodeAny(m)
}

func dedupe(in []string) []string {
	var out []string
	for _, s := range in {
		if len(out) == 0 || out[len(out)-1] != s {
			out = append(out, s)
		}
	}
	return out
}
