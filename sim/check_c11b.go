package sim

import (
	"fmt"
	"io"
	"math/big"
	"math/rand/v2"
	"sort"
	"strings"

	"github.com/bnb-chain/tss-lib/v2/common"
	"github.com/bnb-chain/tss-lib/v2/crypto"
	"github.com/bnb-chain/tss-lib/v2/crypto/modproof"
	"github.com/bnb-chain/tss-lib/v2/crypto/mta"
	"github.com/bnb-chain/tss-lib/v2/crypto/paillier"
	"github.com/bnb-chain/tss-lib/v2/tss"
)

// C11, harness-built transcripts: a proof that satisfies every equation its verifier checks and fails
// exactly one guard. The in-situ "announce" attacks cannot isolate a guard (a proof for another
// modulus fails the equations as well), so a guard that went missing would hide behind the others.
// Each transcript is checked against the harness's own evaluation of the equations first (a transcript
// that does not satisfy them is a harness error, not a finding), then handed to the exported verifier.

func init() {
	Drivers["c11-transcript"] = driveC11Transcript
}

func c11Transcripts() []c11Attack {
	return []c11Attack{
		{ID: "mod/transcript-prime-modulus-2048", Kind: "transcript", Guard: "N composite"},
		{ID: "mod/transcript-prime-modulus-1024", Kind: "transcript", Guard: "N composite"},
		{ID: "mod/transcript-mersenne-2203", Kind: "transcript", Guard: "N composite"},
		// the last sentence of C11 (Paillier operations refuse values outside their domain instead of
		// wrapping): direct boundary probes of the exported operations. Pure functions, no simulation
		// involved; the scalar side cannot be reached from the network (the multiplier is Bob's own
		// secret), the ciphertext side is also covered in situ by C13's N^2 / +N cells
		// a deviating prover written out in the harness: Bob's proof with check for the multiplier q-w with the
		// commitment point negated (every equation holds, the point equation up to sign)
		{ID: "bob-wc/transcript-negated-multiplier", Kind: "bobwc-negated", Guard: "g^s1 = X^e * u as points"},
		{ID: "paillier-domain/scalar", Kind: "domain", Guard: "plaintext and multiplier in [0,N)"},
		{ID: "paillier-domain/ciphertext", Kind: "domain", Guard: "ciphertext in [0,N^2) and a unit"},
	}
}

func genC11Transcript(seed uint64, run, idx, total int) *Scenario {
	a := c11Transcripts()[idx%len(c11Transcripts())]
	p := map[string]interface{}{"attack": a.ID, "akind": a.Kind, "guard": a.Guard, "variant": idx / len(c11Transcripts()), "cells_total": total,
		"session": []string{"short", "empty", "long"}[idx%3]}
	return &Scenario{Check: "C11", Kind: "c11-transcript", Seed: seed, Run: run, P: p, Sched: SchedConfig{Strategy: "fifo"}}
}

// forgeModProofForPrime builds (W, X, A, B, Z) for a prime N = 3 mod 4: Z_i = Y_i (Fermat), a_i picks the
// quadratic residue among +-Y_i, b_i = 0, X_i is the fourth root obtained by two principal square roots.
func forgeModProofForPrime(session []byte, N *big.Int, r *rand.Rand) (*modproof.ProofMod, error) {
	if N.Bit(0) != 1 || N.Bit(1) != 1 {
		return nil, fmt.Errorf("N is not 3 mod 4")
	}
	var W *big.Int
	for {
		Tick()
		b := make([]byte, (N.BitLen()+7)/8)
		for i := range b {
			b[i] = byte(r.UintN(256))
		}
		W = new(big.Int).Mod(new(big.Int).SetBytes(b), N)
		if W.Sign() > 0 && big.Jacobi(W, N) == -1 {
			break
		}
	}
	rootExp := new(big.Int).Rsh(new(big.Int).Add(N, big.NewInt(1)), 2) // (N+1)/4
	pf := &modproof.ProofMod{W: W, A: new(big.Int).Lsh(big.NewInt(1), modproof.Iterations), B: new(big.Int).Lsh(big.NewInt(1), modproof.Iterations)}
	Y := make([]*big.Int, modproof.Iterations)
	for i := range Y {
		ei := common.SHA512_256i_TAGGED(session, append([]*big.Int{W, N}, Y[:i]...)...)
		Y[i] = common.RejectionSample(N, ei)
		if Y[i].Sign() == 0 {
			return nil, fmt.Errorf("challenge %d is zero", i)
		}
		y := new(big.Int).Set(Y[i])
		if big.Jacobi(y, N) != 1 {
			y.Sub(N, y)
			pf.A.SetBit(pf.A, i, 1)
		}
		x := new(big.Int).Exp(y, rootExp, N)
		x.Exp(x, rootExp, N)
		pf.X[i] = x
		pf.Z[i] = new(big.Int).Set(Y[i])
		// the harness's own evaluation of the two equations
		want := new(big.Int).Set(Y[i])
		if pf.A.Bit(i) == 1 {
			want.Sub(N, want)
		}
		if new(big.Int).Exp(x, big.NewInt(4), N).Cmp(want) != 0 || new(big.Int).Exp(pf.Z[i], N, N).Cmp(Y[i]) != 0 {
			return nil, fmt.Errorf("forged transcript does not satisfy the equations at iteration %d", i)
		}
	}
	return pf, nil
}

func driveC11Transcript(rc *RunCtx) {
	sc := rc.Sc
	id := sc.Str("attack", "")
	r := rand.New(rand.NewPCG(seedFor(sc.Seed, id, sc.Int("variant", 0), "c11-transcript"), 67))
	var session []byte
	switch sc.Str("session", "short") {
	case "short":
		session = []byte("session-7")
	case "long":
		session = make([]byte, 200)
		for i := range session {
			session[i] = byte(r.UintN(256))
		}
	}
	if sc.Str("akind", "") == "domain" {
		drivePaillierDomain(rc, id, r)
		return
	}
	if sc.Str("akind", "") == "bobwc-negated" {
		driveBobWCNegated(rc, id, r)
		return
	}
	var N *big.Int
	switch id {
	case "mod/transcript-prime-modulus-2048":
		N = primeWith(r, 2048, 3)
	case "mod/transcript-prime-modulus-1024":
		N = primeWith(r, 1024, 3)
	case "mod/transcript-mersenne-2203":
		N = new(big.Int).Sub(new(big.Int).Lsh(big.NewInt(1), 2203), big.NewInt(1))
	default:
		rc.Fail("harness", "unknown transcript %s", id)
		return
	}
	pf, err := forgeModProofForPrime(session, N, r)
	if err != nil {
		rc.Fail("harness", "%s: %v", id, err)
		return
	}
	st := &Stepper{Seed: rc.EntropySeed("c11-transcript"), Ch: NewChooser(0, nil, true)}
	accepted, acceptedWire := false, false
	out := st.Run(func() {
		accepted = pf.Verify(session, N)
		parts := pf.Bytes()
		if p2, err := modproof.NewProofFromBytes(cloneParts(parts[:])); err == nil {
			acceptedWire = p2.Verify(session, N)
		}
	})
	if out.Panic != nil {
		rc.Fail("panic", "%s: verifier panicked: %v\n%s", id, out.Panic, firstRepoFrames(out.Stack))
		return
	}
	if out.Deadlock {
		rc.Fail("deadlock", "%s: verifier never returned", id)
		return
	}
	rc.Res.Cells = map[string]string{id: "rejected"}
	rc.Res.Nontrivial = true
	rc.Res.Faults["transcript:"+sc.Str("guard", "")]++
	rc.Res.Sample = map[string]interface{}{"attack": id, "guard": sc.Str("guard", ""), "modulus_bits": N.BitLen(), "outcome": "rejected"}
	if accepted || acceptedWire {
		rc.Res.Cells[id] = "accepted"
		rc.Fail("false-statement-accepted", "attack %s (guard: %s): the Paillier-Blum modulus verifier accepted a transcript for a %d-bit PRIME modulus (every equation holds by construction; only the compositeness guard can reject it)", id, sc.Str("guard", ""), N.BitLen())
		rc.Res.Violation.Key = "c11-accepted#" + id
	}
}

// drivePaillierDomain hands out-of-domain values to the exported Paillier operations of a vendored key.
func drivePaillierDomain(rc *RunCtx, id string, r *rand.Rand) {
	sc := rc.Sc
	fx, err := LoadECFixtures()
	if err != nil {
		rc.Fail("harness", "%v", err)
		return
	}
	sk := fx[sc.Int("variant", 0)%5].PaillierSK
	pk := &sk.PublicKey
	N, N2 := pk.N, pk.NSquare()
	st := &Stepper{Seed: rc.EntropySeed("paillier-domain"), Ch: NewChooser(0, nil, true)}
	rd := st.NewNodeRand("caller", "rand")
	add := func(a *big.Int, k int64) *big.Int { return new(big.Int).Add(a, big.NewInt(k)) }
	var accepted []string
	tried := 0
	out := st.Run(func() {
		c0, err := pk.Encrypt(rd, big.NewInt(7))
		if err != nil {
			accepted = append(accepted, "harness: Encrypt(7) failed: "+err.Error())
			return
		}
		probe := func(what string, err error) {
			tried++
			if err == nil {
				accepted = append(accepted, what)
			}
		}
		if id == "paillier-domain/scalar" {
			for name, m := range map[string]*big.Int{"-1": big.NewInt(-1), "N": N, "N+1": add(N, 1), "2N": new(big.Int).Lsh(N, 1), "N^2": N2} {
				_, e1 := pk.Encrypt(rd, m)
				probe("Encrypt(m="+name+")", e1)
				_, e2 := pk.HomoMult(m, c0)
				probe("HomoMult(m="+name+", c)", e2)
			}
			return
		}
		for name, c := range map[string]*big.Int{"-1": big.NewInt(-1), "N^2": N2, "N^2+1": add(N2, 1), "2N^2": new(big.Int).Lsh(N2, 1)} {
			_, e1 := pk.HomoMult(big.NewInt(3), c)
			probe("HomoMult(3, c="+name+")", e1)
			_, e2 := pk.HomoAdd(c, c0)
			probe("HomoAdd(c="+name+", c0)", e2)
			_, e3 := pk.HomoAdd(c0, c)
			probe("HomoAdd(c0, c="+name+")", e3)
			_, e4 := sk.Decrypt(c)
			probe("Decrypt(c="+name+")", e4)
		}
		for name, c := range map[string]*big.Int{"0": big.NewInt(0), "N": N, "P (a factor of N)": sk.P, "N*Q": new(big.Int).Mul(N, sk.Q)} {
			_, e := sk.Decrypt(c)
			probe("Decrypt(c="+name+")", e)
		}
	})
	if out.Panic != nil {
		rc.Fail("panic", "%s: %v\n%s", id, out.Panic, firstRepoFrames(out.Stack))
		return
	}
	rc.Res.Cells = map[string]string{id: "rejected"}
	rc.Res.Nontrivial = true
	rc.Res.Faults["out-of-domain-argument"] += tried
	rc.Res.Sample = map[string]interface{}{"attack": id, "guard": sc.Str("guard", ""), "probes": tried, "outcome": "rejected"}
	if len(accepted) > 0 {
		if strings.HasPrefix(accepted[0], "harness") {
			rc.Fail("harness", "%s", accepted[0])
			return
		}
		sort.Strings(accepted)
		rc.Res.Cells[id] = "accepted"
		rc.Fail("false-statement-accepted", "attack %s (guard: %s): accepted without an error: %s", id, sc.Str("guard", ""), strings.Join(accepted, "; "))
		rc.Res.Violation.Key = "c11-accepted#" + id
	}
}

// proveBobWCCustom is the prover of Bob's proof with check written out in the harness so that a deviating
// prover can be run: with negate=false it is the honest algorithm (used as a control: the library's
// verifier must accept it), with negate=true the multiplier is q-w for X = w*G and the published
// commitment point is -(alpha*G): every equation over the integers and modulo NTilde / N^2 holds for the
// multiplier q-w, and the point equation holds up to sign (g^s1 = -(X^e + U)).
func proveBobWCCustom(session []byte, pk *paillier.PublicKey, NTilde, h1, h2, c1 *big.Int, w, y *big.Int, negate bool, rd io.Reader) (*mta.ProofBobWC, *big.Int, *crypto.ECPoint, error) {
	ec := tss.S256()
	q := ec.Params().N
	x := new(big.Int).Set(w)
	if negate {
		x = new(big.Int).Sub(q, w)
	}
	X := crypto.ScalarBaseMult(ec, w)
	// Bob's response ciphertext for the multiplier he really used
	cy, r, err := pk.EncryptAndReturnRandomness(rd, y)
	if err != nil {
		return nil, nil, nil, err
	}
	c2, err := pk.HomoMult(x, c1)
	if err == nil {
		c2, err = pk.HomoAdd(c2, cy)
	}
	if err != nil {
		return nil, nil, nil, err
	}
	q3 := new(big.Int).Mul(q, new(big.Int).Mul(q, q))
	q7 := new(big.Int).Mul(new(big.Int).Mul(q3, q3), q)
	qNT, q3NT := new(big.Int).Mul(q, NTilde), new(big.Int).Mul(q3, NTilde)
	alpha := common.GetRandomPositiveInt(rd, q3)
	rho := common.GetRandomPositiveInt(rd, qNT)
	sigma := common.GetRandomPositiveInt(rd, qNT)
	tau := common.GetRandomPositiveInt(rd, q3NT)
	rhoPrm := common.GetRandomPositiveInt(rd, q3NT)
	beta := common.GetRandomPositiveRelativelyPrimeInt(rd, pk.N)
	gamma := common.GetRandomPositiveInt(rd, q7)
	u := crypto.ScalarBaseMult(ec, new(big.Int).Mod(alpha, q))
	if negate {
		u, err = crypto.NewECPoint(ec, u.X(), new(big.Int).Sub(ec.Params().P, u.Y()))
		if err != nil {
			return nil, nil, nil, err
		}
	}
	mNT := common.ModInt(NTilde)
	z := mNT.Mul(mNT.Exp(h1, x), mNT.Exp(h2, rho))
	zPrm := mNT.Mul(mNT.Exp(h1, alpha), mNT.Exp(h2, rhoPrm))
	t := mNT.Mul(mNT.Exp(h1, y), mNT.Exp(h2, sigma))
	mN2 := common.ModInt(pk.NSquare())
	v := mN2.Mul(mN2.Mul(mN2.Exp(c1, alpha), mN2.Exp(pk.Gamma(), gamma)), mN2.Exp(beta, pk.N))
	wv := mNT.Mul(mNT.Exp(h1, gamma), mNT.Exp(h2, tau))
	eHash := common.SHA512_256i_TAGGED(session, append(pk.AsInts(), X.X(), X.Y(), c1, c2, u.X(), u.Y(), z, zPrm, t, v, wv)...)
	e := common.RejectionSample(q, eHash)
	mN := common.ModInt(pk.N)
	s := mN.Mul(mN.Exp(r, e), beta)
	s1 := new(big.Int).Add(new(big.Int).Mul(e, x), alpha)
	s2 := new(big.Int).Add(new(big.Int).Mul(e, rho), rhoPrm)
	t1 := new(big.Int).Add(new(big.Int).Mul(e, y), gamma)
	t2 := new(big.Int).Add(new(big.Int).Mul(e, sigma), tau)
	return &mta.ProofBobWC{ProofBob: &mta.ProofBob{Z: z, ZPrm: zPrm, T: t, V: v, W: wv, S: s, S1: s1, S2: s2, T1: t1, T2: t2}, U: u}, c2, X, nil
}

// driveBobWCNegated: control (honest custom prover accepted) and the deviating prover (must be rejected).
func driveBobWCNegated(rc *RunCtx, id string, r *rand.Rand) {
	sc := rc.Sc
	fx, err := LoadECFixtures()
	if err != nil {
		rc.Fail("harness", "%v", err)
		return
	}
	v := sc.Int("variant", 0)
	A, B := fx[v%5], fx[(v+1)%5]
	pk := &A.PaillierSK.PublicKey
	session := []byte(fmt.Sprintf("session-%d", v))
	st := &Stepper{Seed: rc.EntropySeed("bobwc-negated"), Ch: NewChooser(0, nil, true)}
	rd := st.NewNodeRand("bob", "rand")
	q := Secp.n
	var controlOK, forgedAccepted, forgedWire bool
	var herr error
	out := st.Run(func() {
		c1, err := pk.Encrypt(rd, randScalar(r, q))
		if err != nil {
			herr = err
			return
		}
		w, y := randScalar(r, q), randScalar(r, q)
		pf, c2, X, err := proveBobWCCustom(session, pk, A.NTildei, A.H1i, A.H2i, c1, w, y, false, rd)
		if err != nil {
			herr = err
			return
		}
		controlOK = pf.Verify(session, tss.S256(), pk, A.NTildei, A.H1i, A.H2i, c1, c2, X)
		if !controlOK {
			return
		}
		pf2, c2f, X2, err := proveBobWCCustom(session, pk, A.NTildei, A.H1i, A.H2i, c1, w, y, true, rd)
		if err != nil {
			herr = err
			return
		}
		forgedAccepted = pf2.Verify(session, tss.S256(), pk, A.NTildei, A.H1i, A.H2i, c1, c2f, X2)
		parts := pf2.Bytes()
		if p3, err := mta.ProofBobWCFromBytes(tss.S256(), cloneParts(parts[:])); err == nil {
			forgedWire = p3.Verify(session, tss.S256(), pk, A.NTildei, A.H1i, A.H2i, c1, c2f, X2)
		}
	})
	_ = B
	if out.Panic != nil {
		rc.Fail("panic", "%s: %v\n%s", id, out.Panic, firstRepoFrames(out.Stack))
		return
	}
	if herr != nil || !controlOK {
		rc.Fail("harness", "%s: the harness's copy of Bob's prover is not accepted by the library's verifier on an honest statement (err=%v)", id, herr)
		return
	}
	rc.Res.Cells = map[string]string{id: "rejected"}
	rc.Res.Nontrivial = true
	rc.Res.Faults["transcript:"+sc.Str("guard", "")]++
	rc.Res.Sample = map[string]interface{}{"attack": id, "guard": sc.Str("guard", ""), "outcome": "rejected"}
	if forgedAccepted || forgedWire {
		rc.Res.Cells[id] = "accepted"
		rc.Fail("false-statement-accepted", "attack %s (guard: %s): Bob's proof with check was accepted for the multiplier q-w although the public point is w*G (commitment point negated, g^s1 = -(X^e+U))", id, sc.Str("guard", ""))
		rc.Res.Violation.Key = "c11-accepted#" + id
	}
}
