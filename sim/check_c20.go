package sim

import (
	"bytes"
	"crypto/ecdsa"
	"encoding/json"
	"fmt"
	"math/big"
	"math/rand/v2"
	"strings"

	"github.com/bnb-chain/tss-lib/v2/common"
	eckg "github.com/bnb-chain/tss-lib/v2/ecdsa/keygen"
	ecsg"github.com/bnb-chain/tss-lib/v2/ecdsa/signing"
	edkg "github.com/bnb-chain/tss-lib/v2/eddsa/keygen"
	"github.com/bnb-chain/tss-lib/v2/tss"
)

// C20 — key material survives storage and repeated use unchanged; nonces are fresh.
// One run = one history of operations on one key.

func init() {
	Drivers["history"] = driveHistory
	Gens["C20"] = genC20
}

// KeyStore is the simulated disk of the application layer: path -> bytes, with a durable flag.
type KeyStore struct {
	files   map[string][]byte
	durable map[string]bool
	Writes  int
	Reads   int
}

func NewKeyStore() *KeyStore { return &KeyStore{files: map[string][]byte{}, durable: map[string]bool{}} }
func (s *KeyStore) Write(path string, b []byte, durable bool) {
	s.files[path] = append([]byte{}, b...)
	s.durable[path] = durable
	s.Writes++
}
func (s *KeyStore) Read(path string) ([]byte, bool) {
	b, ok := s.files[path]
	s.Reads++
	return append([]byte{}, b...), ok
}

// Crash discards everything that was not made durable.
func (s *KeyStore) Crash() {
	for p := range s.files {
		if !s.durable[p] {
			delete(s.files, p)
			delete(s.durable, p)
		}
	}
}

func genC20(tier string, seed uint64, run int) *Scenario {
	if strings.HasSuffix(tier, "-race") {
		return genC20Race(seed, run)
	}
	r := rand.New(rand.NewPCG(seedFor(seed, "C20", run, "gen"), 1))
	ec := run%4 == 3
	p := map[string]interface{}{}
	nops := 4 + r.IntN(5)
	if ec {
		p["curve"] = "ec"
		nops = 3 + r.IntN(3)
		if (run/4)%4 == 1 {
			p["fresh"], p["idpool"] = true, (run/16)%3
		}
	} else {
		p["curve"] = "ed"
		n, t := nt(r, 5)
		p["n"], p["t"] = n, t
		p["ids"] = idPatterns[r.IntN(len(idPatterns))]
		p["idpool"] = r.IntN(3)
	}
	p["ops"] = nops
	sc := &Scenario{Check: "C20", Kind: "history", Seed: seed, Run: run, P: p}
	sc.Sched = GenSched(r, 3, true, false)
	return sc
}

func driveHistory(rc *RunCtx) {
	sc := rc.Sc
	curve := sc.Str("curve", "ed")
	r := rand.New(rand.NewPCG(seedFor(sc.Seed, sc.Run, "history"), 23))
	store := NewKeyStore()
	var n, t int
	var edKeys []edkg.LocalPartySaveData
	var ecKeys []eckg.LocalPartySaveData
	var pids tss.SortedPartyIDs
	var pub Pt
	var g Group
	if curve == "ed" {
		n, t = sc.Int("n", 3), sc.Int("t", 1)
		g = Ed
		idk := idKeys(idRand("key", n, sc.Int("idpool", 0)), sc.Str("ids", "small"), n, Ed.Order(), 0)
		k, p, ok := rc.EdKeygenQuiet("keygen", idk, t)
		if !ok {
			return
		}
		edKeys, pids = k, p
		pub = pt(k[0].EDDSAPub.X(), k[0].EDDSAPub.Y())
	} else if sc.Bool("fresh") {
		// a key made by a simulated key generation with party ids above the group order (the vendored key's
		// ids are all below it)
		n, t = 3, 1
		g = Secp
		idk := idKeys(idRand("key", n, sc.Int("idpool", 0)), "aboveq", n, Secp.Order(), 0)
		k, p, ok := rc.ECKeygenQuiet(idk, t, sc.Int("idpool", 0))
		if !ok {
			return
		}
		ecKeys, pids = k, p
		pub = pt(k[0].ECDSAPub.X(), k[0].ECDSAPub.Y())
	} else {
		n, t = 5, 2
		g = Secp
		k, err := LoadECFixtures()
		if err != nil {
			rc.Fail("harness", "fixtures: %v", err)
			return
		}
		ecKeys = k
		ks := make([]*big.Int, n)
		for i := range k {
			ks[i] = k[i].ShareID
		}
		pids = MakePIDs("p", ks)
		pub = pt(k[0].ECDSAPub.X(), k[0].ECDSAPub.Y())
	}
	snapshot := func() []string {
		out := make([]string, n)
		for i := 0; i < n; i++ {
			var b []byte
			var err error
			if curve == "ed" {
				b, err = json.Marshal(edKeys[i])
			} else {
				b, err = json.Marshal(ecKeys[i])
			}
			if err != nil {
				rc.Fail("key-not-serialisable", "party %d: %v", i, err)
				return nil
			}
			out[i] = string(b)
		}
		return out
	}
	base := snapshot()
	if base == nil {
		return
	}
	// durable copies on the simulated disk
	for i, s := range base {
		store.Write(fmt.Sprintf("key-%d.json", i), []byte(s), true)
	}
	type session struct {
		R       string
		msg     string
		members string
	}
	var sessions []session
	var hist []string
	// runSign executes one signing session; mode: "normal", "silence", "tamper"
	runSign := func(tag string, members []int, msg *big.Int, kdd *big.Int, signPub Pt, mode string, seedTag string, useSched bool) (*common.SignatureData, bool) {
		var w *World
		if useSched {
			w = NewWorld(rc.EntropySeed(seedTag), rc.Ch)
		} else {
			w = NewWorld(rc.EntropySeed(seedTag), NewChooser(0, nil, true))
			w.Quiet = true
		}
		w.Logf("world %s", tag)
		rc.Worlds = append(rc.Worlds, w)
		spids := subsetPIDs("s", pids, members)
		var nodes []*Node
		if curve == "ed" {
			nodes = w.AddEdSigning(spids, edKeysFor(spids, edKeys), t, msg, 0)
		} else if kdd != nil {
			// the public helper is a documented mutator: apply it to a reloaded copy
			cp := make([]eckg.LocalPartySaveData, len(spids))
			src := ecKeysFor(spids, ecKeys)
			for i := range src {
				cp[i] = cloneECKey(src[i])
			}
			if err := ecsg.UpdatePublicKeyAndAdjustBigXj(kdd, cp, &ecdsa.PublicKey{Curve: tss.S256(), X: signPub.X, Y: signPub.Y}, tss.S256()); err != nil {
				rc.Fail("harness", "UpdatePublicKeyAndAdjustBigXj: %v", err)
				return nil, false
			}
			// the adjusted copies are what the caller holds for this session: they must come back unchanged
			held := make([]string, len(cp))
			for i := range cp {
				b, _ := json.Marshal(cp[i])
				held[i] = string(b)
			}
			defer func() {
				for i := range cp {
					if b, _ := json.Marshal(cp[i]); string(b) != held[i] && !rc.Failed() {
						rc.Fail("key-data-modified", "session %s, signer %d: the key data handed to the signing party was modified by a session with a derivation offset:\n before %s\n after  %s", tag, i, firstDiff(held[i], string(b), true), firstDiff(held[i], string(b), false))
					}
				}
			}()
			nodes = w.AddECSigning(spids, cp, t, msg, 0, kdd)
		} else {
			nodes = w.AddECSigning(spids, ecKeysFor(spids, ecKeys), t, msg, 0, nil)
		}
		// the partial-key entropy stream (Parameters.SetPartialKeyRand) is the SAME in every session of a
		// history, as with an application that derives it from a fixed seed for reproducible key generation:
		// signing nonces must not come from it
		for _, n := range nodes {
			n.PKRand.main = NewDRBG("c20-partial-key-stream", n.PID.KeyInt().String())
		}
		w.AttachBasicInvariants()
		cfg := SchedConfig{Strategy: "fifo"}
		if useSched {
			cfg = sc.Sched
		}
		switch mode {
		case "silence":
			cfg.SilenceNode = r.IntN(len(nodes))
			cfg.SilenceAt = 1 + r.IntN(len(nodes)*len(nodes)*3)
		case "tamper":
			victim := nodes[r.IntN(len(nodes))]
			done := false
			w.Intercept = func(from *Node, em *Emission) ([]byte, bool) {
				if from == victim && !done && len(from.Emitted) >= 2 {
					done = true
					b := append([]byte{}, em.Wire...)
					b[len(b)-1] ^= 0x55
					w.Faults["tamper:byte"]++
					return b, true
				}
				return em.Wire, true
			}
			w.AfterStep = append(w.AfterStep, func(ev *StepEvent) *Violation {
				if ev.Err != nil {
					ev.Node.Silenced = true
				}
				return nil
			})
		}
		w.RunSchedule(&cfg)
		if w.Violation != nil {
			return nil, false
		}
		if mode != "normal" {
			// an aborted session: whatever came out must still be valid, nothing more is demanded
			for _, s := range sigs(nodes) {
				if s != nil {
					if curve == "ed" {
						if err := CheckEdDSASig(s, signPub, msg, 0); err != nil {
							rc.Fail("bad-signature", "aborted session %s: %v", tag, err)
							return nil, false
						}
					} else if err := CheckECDSASig(s, signPub, msg, 0); err != nil {
						rc.Fail("bad-signature", "aborted session %s: %v", tag, err)
						return nil, false
					}
				}
			}
			return nil, true
		}
		if e := w.AllFinished(); e != "" {
			rc.Fail("not-finished", "session %s: %s", tag, e)
			return nil, false
		}
		if !rc.CheckSigOutputs(curve, nodes, signPub, msg, 0) {
			return nil, false
		}
		return sigs(nodes)[0], true
	}
	nops := sc.Int("ops", 5)
	var lastMembers []int
	var lastMsg *big.Int
	for op := 0; op < nops && !rc.Failed(); op++ {
		kinds := []string{"sign", "sign", "reload", "abort-silence", "abort-tamper", "repeat"}
		if curve == "ec" {
			kinds = append(kinds, "sign-offset", "sign-offset")
		}
		kind := kinds[r.IntN(len(kinds))]
		if kind == "repeat" && lastMembers == nil {
			kind = "sign"
		}
		size := t + 1
		if curve == "ed" && n > t+1 && r.IntN(2) == 0 {
			size = t + 1 + r.IntN(n-t)
		}
		members := randSubset(r.IntN, n, size)
		msg := new(big.Int).SetUint64(r.Uint64())
		if curve == "ed" {
			msg, _ = edMessage(r, "b32")
		}
		switch kind {
		case "reload":
			// JSON -> disk -> JSON -> new structs, for a random subset of the parties
			for _, i := range randSubset(r.IntN, n, 1+r.IntN(n)) {
				b, ok := store.Read(fmt.Sprintf("key-%d.json", i))
				if !ok {
					rc.Fail("harness", "store lost key %d", i)
					return
				}
				if curve == "ed" {
					var k edkg.LocalPartySaveData
					if err := json.Unmarshal(b, &k); err != nil {
						rc.Fail("reload-failed", "party %d: stored key data does not load: %v", i, err)
						return
					}
					edKeys[i] = k
				} else {
					var k eckg.LocalPartySaveData
					if err := json.Unmarshal(b, &k); err != nil {
						rc.Fail("reload-failed", "party %d: stored key data does not load: %v", i, err)
						return
					}
					ecKeys[i] = k
				}
				rc.Res.Probes["reloads"]++
			}
			hist = append(hist, "reload")
		case "sign", "repeat":
			if kind == "repeat" {
				members, msg = lastMembers, lastMsg
			}
			tag := fmt.Sprintf("op%d", op)
			sd, ok := runSign(tag, members, msg, nil, pub, "normal", tag, true)
			if !ok {
				return
			}
			// same entropy and (FIFO) schedule from freshly reloaded copies must give the same bytes
			if op%3 == 0 {
				savedEd, savedEc := edKeys, ecKeys
				if curve == "ed" {
					edKeys = make([]edkg.LocalPartySaveData, n)
					for i := range edKeys {
						_ = json.Unmarshal([]byte(base[i]), &edKeys[i])
					}
				} else {
					ecKeys = make([]eckg.LocalPartySaveData, n)
					for i := range ecKeys {
						_ = json.Unmarshal([]byte(base[i]), &ecKeys[i])
					}
				}
				a, ok1 := runSign(tag+"-mem", members, msg, nil, pub, "normal", tag+"-cmp", false)
				edKeys, ecKeys = savedEd, savedEc
				b, ok2 := runSign(tag+"-reloaded", members, msg, nil, pub, "normal", tag+"-cmp", false)
				if !ok1 || !ok2 {
					return
				}
				if !sigEqual(a, b) {
					rc.Fail("reload-changes-result", "signing from reloaded key data gives a different signature than from the in-memory data with the same entropy and schedule")
					return
				}
				rc.Res.Probes["reload_equivalence_checked"]++
			}
			sessions = append(sessions, session{R: fmt.Sprintf("%x", sd.R), msg: msg.Text(16), members: fmt.Sprint(members)})
			lastMembers, lastMsg = members, msg
			hist = append(hist, fmt.Sprintf("%s%v", kind, members))
		case "sign-offset":
			delta := new(big.Int).SetUint64(r.Uint64() | 1)
			if r.IntN(3) > 0 {
				// an offset anywhere in [1,q): x_i + offset wraps around q for some signers
				db := make([]byte, 32)
				for i := range db {
					db[i] = byte(r.UintN(256))
				}
				delta = new(big.Int).Mod(new(big.Int).SetBytes(db), Secp.n)
				if delta.Sign() == 0 {
					delta.SetInt64(1)
				}
			}
			child := Secp.Add(pub, GMul(Secp, delta, Secp.Base()))
			tag := fmt.Sprintf("op%d", op)
			sd, ok := runSign(tag, members, msg, delta, child, "normal", tag, true)
			if !ok {
				return
			}
			if err := CheckECDSASig(sd, pub, msg, 0); err == nil {
				rc.Fail("offset-ignored", "a signature made with a derivation offset verifies under the parent key")
				return
			}
			sessions = append(sessions, session{R: fmt.Sprintf("%x", sd.R), msg: msg.Text(16), members: fmt.Sprint(members)})
			hist = append(hist, fmt.Sprintf("sign-offset%v", members))
		case "abort-silence", "abort-tamper":
			tag := fmt.Sprintf("op%d", op)
			mode := "silence"
			if kind == "abort-tamper" {
				mode = "tamper"
			}
			if _, ok := runSign(tag, members, msg, nil, pub, mode, tag, true); !ok {
				return
			}
			rc.Res.Probes["aborted_sessions"]++
			hist = append(hist, kind)
		}
		if rc.Failed() {
			return
		}
		// deep snapshot: the caller-held key data is byte-for-byte what it was
		now := snapshot()
		if now == nil {
			return
		}
		for i := range now {
			if now[i] != base[i] {
				rc.Fail("key-data-modified", "after operation %d (%s) party %d's stored key data differs from before:\n before %s\n after  %s", op, kind, i, firstDiff(base[i], now[i], true), firstDiff(base[i], now[i], false))
				return
			}
		}
	}
	// nonce freshness over all completed sessions
	for i := range sessions {
		for j := 0; j < i; j++ {
			if sessions[i].R == sessions[j].R {
				rc.Fail("nonce-reuse", "sessions %d and %d (messages %s / %s, signers %s / %s) used the same signature nonce R=%s", j, i, sessions[j].msg, sessions[i].msg, sessions[j].members, sessions[i].members, sessions[i].R)
				return
			}
		}
	}
	_ = g
	rc.Res.Probes["completed_sessions"] += len(sessions)
	rc.Res.Nontrivial = true
	rc.Res.Sample = map[string]interface{}{"curve": curve, "n": n, "t": t, "history": hist, "store_writes": store.Writes, "store_reads": store.Reads}
}

func firstDiff(a, b string, first bool) string {
	i := 0
	for i < len(a) && i < len(b) && a[i] == b[i] {
		i++
	}
	lo := i - 30
	if lo < 0 {
		lo = 0
	}
	s := a
	if !first {
		s = b
	}
	hi := i + 50
	if hi > len(s) {
		hi = len(s)
	}
	if lo > hi {
		lo = hi
	}
	return "…" + s[lo:hi] + "…"
}

var _ = bytes.Equal
