package sim

import (
	"encoding/json"
	"fmt"
	"math/big"
	"math/rand/v2"
	"os"
	"path/filepath"
	"strings"

	eckg "github.com/bnb-chain/tss-lib/v2/ecdsa/keygen"
	edkg "github.com/bnb-chain/tss-lib/v2/eddsa/keygen"
	"github.com/bnb-chain/tss-lib/v2/tss"
)

// ProtoRun is one simulated protocol instance with its oracles.
type ProtoRun struct {
	RC    *RunCtx
	Proto string // ed-keygen ed-sign ed-reshare ec-keygen ec-sign ec-reshare
	Curve string // ed | ec
	W     *World
	Nodes []*Node
	Olds  []*Node
	News  []*Node
	N, T  int
	NewN  int
	NewT  int
	Pub   Pt
	Msg   *big.Int
	Full  int
	KDD   *big.Int // key-derivation offset (ECDSA signing)
	Model *ModelTracker

	edKeys   []edkg.LocalPartySaveData // all parties of the key used (sign / reshare input)
	ecKeys   []eckg.LocalPartySaveData
	keyPIDs  tss.SortedPartyIDs
	edOldIn  []edkg.LocalPartySaveData // caller-held data handed to participating old members
	ecOldIn  []eckg.LocalPartySaveData
	Members  []int
	NewIDKs  []*big.Int
	ackType  string
	signKeys []eckg.LocalPartySaveData // key data handed to the ECDSA signers (subset order)
	Sample   map[string]interface{}
	NoProofs bool
}

func (pr *ProtoRun) group() Group {
	if pr.Curve == "ed" {
		return Ed
	}
	return Secp
}

func modelName(proto string) string {
	switch proto {
	case "ed-keygen":
		return "eddsa-keygen"
	case "ed-sign":
		return "eddsa-signing"
	case "ed-reshare":
		return "eddsa-resharing"
	case "ec-keygen":
		return "ecdsa-keygen"
	case "ec-sign":
		return "ecdsa-signing"
	case "ec-reshare":
		return "ecdsa-resharing"
	}
	return ""
}

func idRand(tag string, n, pool int) *rand.Rand {
	return rand.New(rand.NewPCG(seedFor("ids", tag, n, pool), 3))
}

// ---- ECDSA fixtures and pre-parameters ---------------------------------------------------------

var fixtureCache []eckg.LocalPartySaveData

// LoadECFixtures reads the vendored 5-party t=2 ECDSA key (which also carries the five vendored
// pre-parameter sets).
func LoadECFixtures() ([]eckg.LocalPartySaveData, error) {
	if fixtureCache == nil {
		for i := 0; i < 5; i++ {
			b, err := os.ReadFile(fmt.Sprintf("%s/test/_ecdsa_fixtures/keygen_data_%d.json", RepoRoot(), i))
			if err != nil {
				return nil, err
			}
			var k eckg.LocalPartySaveData
			if err := json.Unmarshal(b, &k); err != nil {
				return nil, err
			}
			fixtureCache = append(fixtureCache, k)
		}
	}
	// deep copy through JSON so that no run can disturb another
	out := make([]eckg.LocalPartySaveData, len(fixtureCache))
	for i := range fixtureCache {
		out[i] = cloneECKey(fixtureCache[i])
	}
	return out, nil
}

func cloneECKey(k eckg.LocalPartySaveData) eckg.LocalPartySaveData {
	b, err := json.Marshal(k)
	if err != nil {
		panic(err)
	}
	var c eckg.LocalPartySaveData
	if err := json.Unmarshal(b, &c); err != nil {
		panic(err)
	}
	return c
}

func ECPreParams() ([]eckg.LocalPreParams, error) {
	fx, err := LoadECFixtures()
	if err != nil {
		return nil, err
	}
	out := make([]eckg.LocalPreParams, len(fx))
	for i := range fx {
		out[i] = fx[i].LocalPreParams
	}
	return out, nil
}

var ecKeyCache = map[string][]eckg.LocalPartySaveData{}

const ecKeyDir = "/verif/build/keycache"

// ECKeygenQuiet: fresh ECDSA key by a FIFO simulated keygen with the vendored pre-parameter sets;
// cached in-process and on disk; every cached key is re-validated by the C03 oracle when loaded.
func (rc *RunCtx) ECKeygenQuiet(idk []*big.Int, t int, preOffset int) ([]eckg.LocalPartySaveData, tss.SortedPartyIDs, bool) {
	n := len(idk)
	ck := fmt.Sprintf("ec-%d-%d-%d-%x", n, t, preOffset, seedFor(fmt.Sprint(idk)))
	validate := func(keys []eckg.LocalPartySaveData) error {
		views := make([]*KeyView, len(keys))
		for i := range keys {
			v, err := ViewEC(fmt.Sprintf("p%d", i), &keys[i])
			if err != nil {
				return err
			}
			views[i] = v
		}
		return CheckSharing(Secp, views, t, 30)
	}
	pidsOf := func(keys []eckg.LocalPartySaveData) tss.SortedPartyIDs {
		ks := make([]*big.Int, len(keys))
		for i := range keys {
			ks[i] = keys[i].ShareID
		}
		return MakePIDs("p", ks)
	}
	if c, ok := ecKeyCache[ck]; ok {
		out := make([]eckg.LocalPartySaveData, len(c))
		for i := range c {
			out[i] = cloneECKey(c[i])
		}
		rc.Res.Probes["prelude_cache_hit"]++
		return out, pidsOf(out), true
	}
	path := filepath.Join(ecKeyDir, ck+".json")
	if b, err := os.ReadFile(path); err == nil {
		var keys []eckg.LocalPartySaveData
		if json.Unmarshal(b, &keys) == nil && len(keys) == n && validate(keys) == nil {
			ecKeyCache[ck] = keys
			rc.Res.Probes["prelude_disk_hit"]++
			out := make([]eckg.LocalPartySaveData, n)
			for i := range keys {
				out[i] = cloneECKey(keys[i])
			}
			return out, pidsOf(out), true
		}
	}
	pre, err := ECPreParams()
	if err != nil {
		rc.Fail("harness", "fixtures: %v", err)
		return nil, nil, false
	}
	use := make([]eckg.LocalPreParams, n)
	for i := range use {
		use[i] = pre[(i+preOffset)%len(pre)]
	}
	w := NewWorld("prelude/"+ck, NewChooser(0, nil, true))
	w.Quiet = true
	rc.Worlds = append(rc.Worlds, w)
	nodes := w.AddECKeygen(idk, t, use, ECKeygenOpts{})
	w.AttachBasicInvariants()
	if !w.RunSchedule(&SchedConfig{Strategy: "fifo"}) || w.Violation != nil {
		rc.Fail("prelude-keygen", "ECDSA keygen prelude did not complete")
		return nil, nil, false
	}
	if s := w.AllFinished(); s != "" {
		rc.Fail("prelude-keygen", "ECDSA keygen prelude: %s", s)
		return nil, nil, false
	}
	saves := ecSaves(nodes)
	out := make([]eckg.LocalPartySaveData, n)
	for i, s := range saves {
		out[i] = *s
	}
	if err := validate(out); err != nil {
		rc.Fail("prelude-keygen", "ECDSA keygen prelude produced an inconsistent sharing: %v", err)
		return nil, nil, false
	}
	ecKeyCache[ck] = out
	if b, err := json.Marshal(out); err == nil {
		_ = os.MkdirAll(ecKeyDir, 0o755)
		tmp := fmt.Sprintf("%s.%d.tmp", path, os.Getpid())
		if os.WriteFile(tmp, b, 0o644) == nil {
			_ = os.Rename(tmp, path)
		}
	}
	res := make([]eckg.LocalPartySaveData, n)
	for i := range out {
		res[i] = cloneECKey(out[i])
	}
	return res, pidsOf(res), true
}

// ---- setup -------------------------------------------------------------------------------------

// SetupProto builds the world for the protocol described by the scenario parameters.
// tag distinguishes several instances inside one run. sharedSeed makes two instances use the same
// entropy (used by C07's reference run).
func (rc *RunCtx) SetupProto(tag string, quiet bool) *ProtoRun {
	sc := rc.Sc
	pr := &ProtoRun{RC: rc, Proto: sc.Str("proto", "ed-sign"), Sample: map[string]interface{}{}}
	srng := rand.New(rand.NewPCG(seedFor(sc.Seed, sc.Check, sc.Run, "setup"), 11)) // same draws for every instance of this scenario
	pr.Curve = pr.Proto[:2]
	pr.N, pr.T = sc.Int("n", 3), sc.Int("t", 1)
	pr.NoProofs = sc.Bool("noproofs")
	g := pr.group()
	idk := idKeys(idRand("key", pr.N, sc.Int("idpool", 0)), sc.Str("ids", "small"), pr.N, g.Order(), 0)
	mkWorld := func() *World {
		var w *World
		if quiet {
			w = NewWorld(rc.EntropySeed("main"), NewChooser(0, nil, true))
			w.Quiet = true
			rc.Worlds = append(rc.Worlds, w)
		} else {
			w = NewWorld(rc.EntropySeed("main"), rc.Ch)
			rc.Worlds = append(rc.Worlds, w)
		}
		w.St.Edges = sc.Bool("edges")
		w.Logf("world %s proto=%s", tag, pr.Proto)
		return w
	}
	kind := pr.Proto[3:]
	// key material for sign / reshare
	if kind != "keygen" {
		if pr.Curve == "ed" {
			keys, pids, ok := rc.EdKeygenQuiet("keygen", idk, pr.T)
			if !ok {
				return nil
			}
			pr.edKeys, pr.keyPIDs = keys, pids
			pr.Pub = pt(keys[0].EDDSAPub.X(), keys[0].EDDSAPub.Y())
		} else if sc.Str("keysrc", "fixture") == "fixture" {
			keys, err := LoadECFixtures()
			if err != nil {
				rc.Fail("harness", "fixtures: %v", err)
				return nil
			}
			pr.N, pr.T = 5, 2
			if rr := sc.Int("rerand", 0); rr != 0 {
				// the same key with one party's ring-Pedersen generators replaced by (h1^e, h2^e): an equally
				// valid key set (h2 = h1^alpha still holds) with another session id, so that values derived
				// from the key set (ssid bytes, contexts) are not the same few in every run on the vendored key
				keys = rerandomiseRingPedersen(keys, uint64(rr))
			}
			ks := make([]*big.Int, len(keys))
			for i := range keys {
				ks[i] = keys[i].ShareID
			}
			pr.ecKeys, pr.keyPIDs = keys, MakePIDs("p", ks)
			pr.Pub = pt(keys[0].ECDSAPub.X(), keys[0].ECDSAPub.Y())
		} else {
			keys, pids, ok := rc.ECKeygenQuiet(idk, pr.T, sc.Int("preoff", 0))
			if !ok {
				return nil
			}
			pr.ecKeys, pr.keyPIDs = keys, pids
			pr.Pub = pt(keys[0].ECDSAPub.X(), keys[0].ECDSAPub.Y())
		}
	}
	switch kind {
	case "keygen":
		w := mkWorld()
		pr.W = w
		if pr.Curve == "ed" {
			pr.Nodes = w.AddEdKeygen(idk, pr.T)
		} else {
			pre, err := ECPreParams()
			if err != nil {
				rc.Fail("harness", "fixtures: %v", err)
				return nil
			}
			use := make([]eckg.LocalPreParams, pr.N)
			for i := range use {
				use[i] = pre[(i+sc.Int("preoff", 0))%len(pre)]
			}
			if rc.InputHook != nil {
				rc.InputHook("ec-keygen-pre", use)
			}
			pr.Nodes = w.AddECKeygen(idk, pr.T, use, ECKeygenOpts{NoProofMod: pr.NoProofs, NoProofFac: pr.NoProofs})
		}
	case "sign":
		s := sc.Int("signers", pr.T+1)
		if s > pr.N {
			s = pr.N
		}
		if sc.Bool("shortssid") && s < pr.T+1 {
			s = pr.T + 1 // (the generators of such runs change n and t after the signer count was drawn)
		}
		pr.Members = randSubset(srng.IntN, pr.N, s)
		spids := subsetPIDs("s", pr.keyPIDs, pr.Members)
		if sc.Bool("shortssid") {
			// directed: look for a (key set, signer set) whose session id has a leading zero byte (ssid.go)
			found := false
			if pr.Curve == "ec" {
				pr.ecKeys, found = ecKeysWithShortSignSSID(spids, pr.ecKeys, uint64(sc.Int("rerand", 1)), 2000)
			} else {
				// one key (the generators give such runs ten parties), every signer set of admissible size:
				// about a thousand candidate session ids for the price of one key generation
			search:
				for size := pr.T + 1; size <= pr.N; size++ {
					for _, sub := range subsets(pr.N, size, 0) {
						sp := subsetPIDs("s", pr.keyPIDs, sub)
						if edSignSSIDShort(sp, pr.edKeys) {
							pr.Members, spids, found = sub, sp, true
							break search
						}
					}
				}
			}
			if found {
				rc.Res.Probes["key_set_with_short_session_id"]++
			} else {
				rc.Res.Probes["short_session_id_not_found"]++
			}
		}
		w := mkWorld()
		pr.W = w
		if pr.Curve == "ed" {
			pr.Msg, pr.Full = edMessage(srng, sc.Str("msg", "b32"))
			sk := edKeysFor(spids, pr.edKeys)
			if rc.InputHook != nil {
				rc.InputHook("ed-sign-keys", sk)
			}
			pr.Nodes = w.AddEdSigning(spids, sk, pr.T, pr.Msg, pr.Full)
		} else {
			pr.Msg, pr.Full = ecDigest(srng, sc.Str("msg", "random"))
			sk := ecKeysFor(spids, pr.ecKeys)
			if rc.InputHook != nil {
				rc.InputHook("ec-sign-keys", sk)
			}
			pr.signKeys = sk
			pr.Nodes = w.AddECSigning(spids, sk, pr.T, pr.Msg, pr.Full, nil)
		}
	case "reshare":
		part := sc.Int("oldpart", pr.T+1)
		if part > pr.N {
			part = pr.N
		}
		pr.Members = randSubset(srng.IntN, pr.N, part)
		opids := subsetPIDs("o", pr.keyPIDs, pr.Members)
		if sc.Bool("shortssid") && pr.Curve == "ec" {
			// the resharing session id is the same digest over the old committee's view
			var found bool
			if pr.ecKeys, found = ecKeysWithShortSignSSID(opids, pr.ecKeys, uint64(sc.Int("rerand", 1)), 2000); found {
				rc.Res.Probes["key_set_with_short_session_id"]++
			} else {
				rc.Res.Probes["short_session_id_not_found"]++
			}
		}
		pr.NewN, pr.NewT = sc.Int("newn", 3), sc.Int("newt", 1)
		pr.NewIDKs = idKeys(idRand("new", pr.NewN, sc.Int("idpool", 0)), sc.Str("newids", "small"), pr.NewN, g.Order(), 1000)
		w := mkWorld()
		pr.W = w
		if sc.Bool("fullcount") {
			w.OldPartyCount = pr.N
		}
		if pr.Curve == "ed" {
			pr.edOldIn = edKeysFor(opids, pr.edKeys)
			pr.Olds, pr.News = w.AddEdResharing(opids, pr.edOldIn, pr.T, pr.NewIDKs, pr.NewT)
			pr.ackType = "eddsa.resharing.DGRound4Message"
		} else {
			pre, err := ECPreParams()
			if err != nil {
				rc.Fail("harness", "fixtures: %v", err)
				return nil
			}
			use := make([]eckg.LocalPreParams, pr.NewN)
			for i := range use {
				use[i] = pre[(i+sc.Int("preoff", 0))%len(pre)]
			}
			pr.ecOldIn = ecKeysFor(opids, pr.ecKeys)
			if rc.InputHook != nil {
				rc.InputHook("ec-reshare-pre", use)
			}
			pr.Olds, pr.News = w.AddECResharing(opids, pr.ecOldIn, pr.T, pr.NewIDKs, pr.NewT, use, ECKeygenOpts{NoProofMod: pr.NoProofs, NoProofFac: pr.NoProofs})
			pr.ackType = "ecdsa.resharing.DGRound4Message2"
		}
		pr.Nodes = append(append([]*Node{}, pr.Olds...), pr.News...)
	}
	pr.W.AttachBasicInvariants()
	pr.Sample["proto"] = pr.Proto
	pr.Sample["n"], pr.Sample["t"] = pr.N, pr.T
	if pr.Members != nil {
		pr.Sample["members"] = pr.Members
	}
	if kind == "reshare" {
		pr.Sample["new_n"], pr.Sample["new_t"] = pr.NewN, pr.NewT
	}
	return pr
}

func ecDigest(r *rand.Rand, kind string) (*big.Int, int) {
	q := Secp.n
	mk := func(n int) *big.Int {
		b := make([]byte, n)
		for i := range b {
			b[i] = byte(r.UintN(256))
		}
		if b[0] == 0 {
			b[0] = 1
		}
		v := new(big.Int).SetBytes(b)
		if v.Cmp(q) >= 0 {
			v.Rsh(v, 1)
		}
		return v
	}
	switch kind {
	case "zero":
		return big.NewInt(0), 0
	case "one":
		return big.NewInt(1), 0
	case "qm1":
		return new(big.Int).Sub(q, big.NewInt(1)), 0
	case "lz1":
		return mk(31), 0
	case "lz3":
		return mk(29), 0
	case "lz-full32":
		return mk(30), 32
	case "full32":
		return mk(32), 32
	case "zero-full32":
		return big.NewInt(0), 32
	}
	return mk(32), 0
}

// fullBytesLen beyond the 32 bytes of the curve order is not generated: the library then aborts in
// its final self-check (crypto/ecdsa truncates the 33+-byte echo), nobody finishes and no clause
// of C01 speaks about that case (DESIGN.md, noted non-findings).
var ecDigestKinds = []string{"random", "zero", "one", "qm1", "lz1", "lz3", "lz-full32", "full32", "zero-full32"}

// ---- inline invariant: erase ordering in resharing (C04) ----------------------------------------

func (pr *ProtoRun) oldXi(i int) *big.Int {
	if pr.Curve == "ed" {
		return pr.edOldIn[i].Xi
	}
	return pr.ecOldIn[i].Xi
}

func (pr *ProtoRun) allAcksEmitted() bool {
	for _, n := range pr.News {
		ok := false
		for _, em := range n.Emitted {
			if em.Type == pr.ackType {
				ok = true
			}
		}
		if !ok {
			return false
		}
	}
	return true
}

// AttachEraseOrdering: (some caller-held old share is zero) or (some new member put key data on
// end) => every new member's ACK has been emitted.
func (pr *ProtoRun) AttachEraseOrdering() {
	w := pr.W
	w.AfterStep = append(w.AfterStep, func(ev *StepEvent) *Violation {
		if pr.allAcksEmitted() {
			return nil
		}
		for i, n := range pr.Olds {
			if pr.oldXi(i).Sign() == 0 {
				return w.fail("erase-before-ack", "old member %s's caller-held share is erased although not every new member has acknowledged", n.Name)
			}
		}
		for _, n := range pr.News {
			if len(n.Results) > 0 {
				return w.fail("save-before-ack", "new member %s emitted key data although not every new member has acknowledged", n.Name)
			}
		}
		return nil
	})
}

// ---- result oracles ------------------------------------------------------------------------------

func (pr *ProtoRun) views(nodes []*Node) ([]*KeyView, error) {
	var vs []*KeyView
	for _, n := range nodes {
		if len(n.Results) == 0 {
			return nil, fmt.Errorf("node %s has no result", n.Name)
		}
		var v *KeyView
		var err error
		if pr.Curve == "ed" {
			v, err = ViewEd(n.Name, n.Results[0].(*edkg.LocalPartySaveData))
		} else {
			v, err = ViewEC(n.Name, n.Results[0].(*eckg.LocalPartySaveData))
		}
		if err != nil {
			return nil, err
		}
		vs = append(vs, v)
	}
	return vs, nil
}

// CheckCompleted applies the C01–C04 result oracle to a run in which every node finished.
func (pr *ProtoRun) CheckCompleted(maxSubsets int) bool {
	rc := pr.RC
	switch pr.Proto[3:] {
	case "keygen":
		vs, err := pr.views(pr.Nodes)
		if err != nil {
			rc.Fail("bad-keydata", "%v", err)
			return false
		}
		if err := CheckSharing(pr.group(), vs, pr.T, maxSubsets); err != nil {
			rc.Fail("bad-sharing", "%v", err)
			return false
		}
		pr.Pub = vs[0].Pub
	case "sign":
		if !rc.CheckSigOutputs(pr.Curve, pr.Nodes, pr.Pub, pr.Msg, pr.Full) {
			return false
		}
	case "reshare":
		vs, err := pr.views(pr.News)
		if err != nil {
			rc.Fail("bad-keydata", "%v", err)
			return false
		}
		if err := CheckSharing(pr.group(), vs, pr.NewT, maxSubsets); err != nil {
			rc.Fail("bad-sharing", "new committee: %v", err)
			return false
		}
		if !PtEq(vs[0].Pub, pr.Pub) {
			rc.Fail("key-changed", "resharing changed the group public key")
			return false
		}
		for i, n := range pr.Olds {
			if pr.oldXi(i).Sign() != 0 {
				rc.Fail("old-share-kept", "old member %s still holds its share after a completed resharing", n.Name)
				return false
			}
		}
	}
	return true
}

// ---- secret scan and wire round trip (C08 c, d) -----------------------------------------------------

func (pr *ProtoRun) secretsOf(n *Node) [][]byte {
	var out [][]byte
	add := func(v *big.Int) {
		if v != nil && v.BitLen() > 64 {
			out = append(out, v.Bytes())
		}
	}
	find := func(key *big.Int) {
		if pr.Curve == "ed" {
			for i := range pr.edKeys {
				if pr.edKeys[i].ShareID.Cmp(key) == 0 {
					add(pr.edKeys[i].Xi)
				}
			}
			return
		}
		for i := range pr.ecKeys {
			k := &pr.ecKeys[i]
			if k.ShareID.Cmp(key) == 0 {
				add(k.Xi)
				if k.PaillierSK != nil {
					add(k.PaillierSK.P)
					add(k.PaillierSK.Q)
					add(k.PaillierSK.LambdaN)
					add(k.PaillierSK.PhiN)
				}
				add(k.P)
				add(k.Q)
				add(k.Alpha)
				add(k.Beta)
			}
		}
	}
	find(n.PID.KeyInt())
	return out
}

func containsBytes(h, n []byte) bool { return len(n) > 0 && strings.Contains(string(h), string(n)) }

// AttachWireChecks: round trip of every emitted message and the secret scan.
func (pr *ProtoRun) AttachWireChecks(extraSecrets func(n *Node) [][]byte) {
	w := pr.W
	secrets := map[int][][]byte{}
	w.AfterStep = append(w.AfterStep, func(ev *StepEvent) *Violation {
		n := ev.Node
		for _, em := range ev.Emitted {
			pm, err := tss.ParseWireMessage(em.Wire, n.PID, em.Bcast)
			if err != nil {
				return w.fail("wire-roundtrip", "node %s: %s does not parse back from its own wire bytes: %v", n.Name, em.Type, err)
			}
			if shortType(pm.Type()) != em.Type {
				return w.fail("wire-roundtrip", "node %s: %s parses back as %s", n.Name, em.Type, pm.Type())
			}
			if !pm.ValidateBasic() {
				return w.fail("wire-roundtrip", "node %s: %s fails ValidateBasic after the wire round trip", n.Name, em.Type)
			}
			b2, _, err := pm.WireBytes()
			if err != nil || string(b2) != string(em.Wire) {
				return w.fail("wire-roundtrip", "node %s: %s re-encodes to different bytes", n.Name, em.Type)
			}
			if _, ok := secrets[n.Idx]; !ok {
				secrets[n.Idx] = pr.secretsOf(n)
				if extraSecrets != nil {
					secrets[n.Idx] = append(secrets[n.Idx], extraSecrets(n)...)
				}
			}
			for _, s := range secrets[n.Idx] {
				if containsBytes(em.Wire, s) {
					return w.fail("secret-on-wire", "node %s: %s contains the big-endian encoding of one of the sender's long-term secrets", n.Name, em.Type)
				}
			}
			w.Probes["wire_roundtrips"]++
		}
		return nil
	})
}

// rerandomiseRingPedersen returns deep copies of the key set in which one party's ring-Pedersen
// generators (h1, h2) are replaced by (h1^e, h2^e) mod NTilde for an odd e derived from seed, in every
// party's public view and in the owner's own parameters.
func rerandomiseRingPedersen(keys []eckg.LocalPartySaveData, seed uint64) []eckg.LocalPartySaveData {
	out := make([]eckg.LocalPartySaveData, len(keys))
	for i := range keys {
		out[i] = cloneECKey(keys[i])
	}
	j := int(seed % uint64(len(out[0].H1j)))
	e := new(big.Int).SetUint64(seed*2654435761 | 1)
	nt := out[0].NTildej[j]
	h1 := new(big.Int).Exp(out[0].H1j[j], e, nt)
	h2 := new(big.Int).Exp(out[0].H2j[j], e, nt)
	for i := range out {
		out[i].H1j[j], out[i].H2j[j] = new(big.Int).Set(h1), new(big.Int).Set(h2)
		if idx, err := out[i].OriginalIndex(); err == nil && idx == j {
			out[i].H1i, out[i].H2i = new(big.Int).Set(h1), new(big.Int).Set(h2)
		}
	}
	return out
}
