package sim

import (
	"math/big"
	"math/rand/v2"
)

// C02 — threshold EdDSA signing yields one valid standard Ed25519 signature (generator in
// check_proto.go; this file holds the message shapes).

func init() {
	Gens["C02"] = genC02
}

func edMessage(r *rand.Rand, kind string) (*big.Int, int) {
	mk := func(n int) *big.Int {
		b := make([]byte, n)
		for i := range b {
			b[i] = byte(r.UintN(256))
		}
		if n > 0 && b[0] == 0 {
			b[0] = 1
		}
		return new(big.Int).SetBytes(b)
	}
	switch kind {
	case "zero":
		return big.NewInt(0), 0
	case "one":
		return big.NewInt(1), 0
	case "b31":
		return mk(31), 0
	case "b32":
		return mk(32), 0
	case "b33":
		return mk(33), 0
	case "b64":
		return mk(64), 0
	case "b200":
		return mk(200), 0
	case "lz32": // 32-byte message with 1-3 leading zero bytes, full length requested
		return mk(32 - 1 - r.IntN(3)), 32
	case "lz64":
		return mk(64 - 1 - r.IntN(5)), 64
	case "zero-full":
		return big.NewInt(0), 32
	case "lz-nofull": // leading zeros vanish: the message is the shorter string
		return mk(29), 0
	}
	return mk(32), 0
}

var edMsgKinds = []string{"zero", "one", "b31", "b32", "b33", "b64", "b200", "lz32", "lz64", "zero-full", "lz-nofull"}
var idPatterns = []string{"small", "random", "nearq", "aboveq"}
