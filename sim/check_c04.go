package sim

import (
	"fmt"
	"math/big"
	"math/rand/v2"

	eckg "github.com/bnb-chain/tss-lib/v2/ecdsa/keygen"
	edkg "github.com/bnb-chain/tss-lib/v2/eddsa/keygen"
	"github.com/bnb-chain/tss-lib/v2/tss"
)

// C04 — resharing keeps the key, re-shares it correctly, retires old shares last.

func init() {
	Drivers["reshare"] = driveReshare
	Drivers["reshare-chain"] = driveReshareChain
	Gens["C04"] = genC04
}

// signQuiet runs a FIFO signing with the given members of a key and returns whether every signer
// produced a signature valid under pub; refused=true when Start refused on every node.
func (rc *RunCtx) signQuiet(curve, tag string, pids tss.SortedPartyIDs, members []int, edKeys []edkg.LocalPartySaveData, ecKeys []eckg.LocalPartySaveData, t int, pub Pt, msg *big.Int) (valid bool, refused bool, detail string) {
	w := NewWorld(rc.EntropySeed(tag), NewChooser(0, nil, true))
	w.Quiet = true
	rc.Worlds = append(rc.Worlds, w)
	spids := subsetPIDs("s", pids, members)
	var nodes []*Node
	if curve == "ed" {
		nodes = w.AddEdSigning(spids, edKeysFor(spids, edKeys), t, msg, 0)
	} else {
		nodes = w.AddECSigning(spids, ecKeysFor(spids, ecKeys), t, msg, 0, nil)
	}
	w.AttachBasicInvariants()
	w.RunSchedule(&SchedConfig{Strategy: "fifo", StopOnError: true})
	if w.Violation != nil {
		// a panic or hang in the signing phase is reported through the world
		return false, false, w.Violation.Error()
	}
	startErrs := 0
	for _, n := range nodes {
		if n.StartErr != nil {
			startErrs++
		}
	}
	if startErrs == len(nodes) {
		return false, true, errString(nodes[0].StartErr)
	}
	for _, n := range nodes {
		if len(n.Errs) > 0 {
			return false, false, fmt.Sprintf("node %s: %s", n.Name, errString(n.Errs[0]))
		}
		if len(n.Results) != 1 {
			return false, false, fmt.Sprintf("node %s did not finish", n.Name)
		}
	}
	ss := sigs(nodes)
	for i, s := range ss {
		var err error
		if curve == "ed" {
			err = CheckEdDSASig(s, pub, msg, 0)
		} else {
			err = CheckECDSASig(s, pub, msg, 0)
		}
		if err != nil {
			return false, false, fmt.Sprintf("node %s: %v", nodes[i].Name, err)
		}
	}
	return true, false, ""
}

func (pr *ProtoRun) newKeyData() (ed []edkg.LocalPartySaveData, ec []eckg.LocalPartySaveData, pids tss.SortedPartyIDs) {
	ks := make([]*big.Int, len(pr.News))
	for i, n := range pr.News {
		ks[i] = n.PID.KeyInt()
		if pr.Curve == "ed" {
			ed = append(ed, *n.Results[0].(*edkg.LocalPartySaveData))
		} else {
			ec = append(ec, *n.Results[0].(*eckg.LocalPartySaveData))
		}
	}
	return ed, ec, MakePIDs("k", ks)
}

func driveReshare(rc *RunCtx) {
	sc := rc.Sc
	pr := rc.SetupProto("main", false)
	if pr == nil {
		return
	}
	w := pr.W
	pr.AttachEraseOrdering()
	mode := sc.Str("mode", "complete")
	if mode == "crash" {
		// a fault-free FIFO run of the same scenario on the same entropy tells how many reads each node
		// makes (a node's reads do not depend on the delivery order); the failing read is placed in that range
		ref := rc.SetupProto("ref", true)
		if ref == nil {
			return
		}
		if !ref.W.RunSchedule(&SchedConfig{Strategy: "fifo"}) || ref.W.Violation != nil {
			rc.Fail("reference-run", "FIFO reference run failed: %v", ref.W.Violation)
			return
		}
		node := sc.Int("crash_node", 0) % len(w.Nodes)
		for i := 0; i < len(w.Nodes) && ref.W.Nodes[node].Rand.Count == 0; i++ {
			node = (node + 1) % len(w.Nodes)
		}
		cnt := ref.W.Nodes[node].Rand.Count
		if cnt > 0 {
			k := 1 + sc.Int("crash_pos", 500)*cnt/1000
			if k > cnt {
				k = cnt
			}
			w.Nodes[node].Rand.FailAt = k
			pr.Sample["crash_node"], pr.Sample["crash_read"], pr.Sample["reads_of_that_node"] = w.Nodes[node].Name, k, cnt
		}
		restore := w.TrackLocks()
		defer restore()
	}
	drained := w.RunSchedule(&sc.Sched)
	if rc.Failed() {
		return
	}
	if sc.Str("newids", "") == "congruent" {
		// two new members whose ids are congruent modulo the group order would get the same share: every
		// old member must refuse to deal (and then nothing is erased), or the outcome must still be sound
		refused := 0
		for _, n := range pr.Olds {
			if n.StartErr != nil {
				refused++
			}
		}
		if refused == len(pr.Olds) {
			for i, n := range pr.Olds {
				if pr.oldXi(i).Sign() == 0 {
					rc.Fail("erase-before-ack", "old member %s refused the new committee's ids and still erased its share", n.Name)
					return
				}
			}
			rc.Res.Probes["inadmissible_new_ids_refused"]++
			rc.Res.Nontrivial = true
			rc.Res.Sample = map[string]interface{}{"proto": pr.Proto, "newids": "congruent", "outcome": "refused by every old member"}
			return
		}
	}
	if mode == "crash" {
		for _, n := range w.Nodes {
			if n.Rand.Fired && !n.Crashed {
				// the failed read did not end the call: the library went on with whatever the reader left
				rc.Res.Probes["entropy_failure_did_not_stop_the_call"]++
			}
		}
	}
	msg := big.NewInt(int64(1000 + sc.Run))
	pr.Sample["mode"] = mode
	pr.Sample["strategy"] = sc.Sched.Strategy
	pr.Sample["steps"] = w.StepNo
	defer func() {
		if rc.Res.Sample == nil {
			rc.Res.Sample = pr.Sample
		}
	}()
	switch mode {
	case "complete":
		if !drained {
			rc.Fail("step-cap", "resharing did not drain")
			return
		}
		if e := w.AllFinished(); e != "" {
			rc.Fail("not-finished", "every sent message was delivered and every party started, but %s", e)
			return
		}
		if !pr.CheckCompleted(sc.Int("maxsubsets", 60)) {
			return
		}
		ed, ec, pids := pr.newKeyData()
		// any t'+1 of the new members can sign under the same key
		subs := subsets(pr.NewN, pr.NewT+1, 0)
		limit := sc.Int("signsubsets", 3)
		if len(subs) > limit {
			rng := rand.New(rand.NewPCG(seedFor(sc.Seed, sc.Run, "subs"), 5))
			rng.Shuffle(len(subs), func(i, j int) { subs[i], subs[j] = subs[j], subs[i] })
			subs = subs[:limit]
		}
		for k, s := range subs {
			ok, _, detail := rc.signQuiet(pr.Curve, fmt.Sprintf("sign-new-%d", k), pids, s, ed, ec, pr.NewT, pr.Pub, msg)
			if rc.Failed() {
				return
			}
			if !ok {
				rc.Fail("new-shares-cannot-sign", "new members %v cannot produce a valid signature under the old public key: %s", s, detail)
				return
			}
			rc.Res.Probes["post_reshare_signatures"]++
		}
		// t' members must be refused or fail
		if sc.Bool("undersized") {
			// (a) honest parameters: t' signers with threshold t' are refused at Start;
			// (b) t' >= 2 signers claiming threshold t'-1 run the protocol and must fail.
			s := subsets(pr.NewN, pr.NewT, 1)[0]
			claim := pr.NewT
			if pr.NewT >= 2 && sc.Run%2 == 0 {
				claim = pr.NewT - 1
			}
			{
				ok, refused, _ := rc.signQuiet(pr.Curve, "sign-under", pids, s, ed, ec, claim, pr.Pub, msg)
				if rc.Failed() {
					return
				}
				if ok {
					rc.Fail("threshold-not-enforced", "only t'=%d new members produced a valid signature", pr.NewT)
					return
				}
				if refused {
					rc.Res.Probes["undersized_refused_at_start"]++
				} else {
					rc.Res.Probes["undersized_failed_later"]++
				}
			}
		}
	case "cut", "silence", "crash":
		// the run stopped somewhere (or one party went silent and the rest drained). Unless every
		// new member had already acknowledged, all old key data must be intact and usable.
		acked := pr.allAcksEmitted()
		pr.Sample["stopped_at"] = w.StepNo
		pr.Sample["all_acked"] = acked
		if acked {
			rc.Res.Probes["cut_after_all_acks"]++
			return
		}
		rc.Res.Probes["cut_before_all_acks"]++
		q := pr.group().Order()
		g := pr.group()
		for i, n := range pr.Olds {
			xi := pr.oldXi(i)
			if xi.Sign() == 0 {
				rc.Fail("erase-before-ack", "old member %s's share is erased although the run stopped before every new member acknowledged", n.Name)
				return
			}
			var bx Pt
			if pr.Curve == "ed" {
				k := pr.edOldIn[i]
				idx, _ := k.OriginalIndex()
				bx = pt(k.BigXj[idx].X(), k.BigXj[idx].Y())
			} else {
				k := pr.ecOldIn[i]
				idx, _ := k.OriginalIndex()
				bx = pt(k.BigXj[idx].X(), k.BigXj[idx].Y())
			}
			if !PtEq(GMul(g, new(big.Int).Mod(xi, q), g.Base()), bx) {
				rc.Fail("old-share-damaged", "old member %s's caller-held share no longer matches its public share point", n.Name)
				return
			}
		}
		// usable: t+1 of the old members sign under the key
		mem := pr.Members[:pr.T+1]
		ok, _, detail := rc.signQuiet(pr.Curve, "sign-old", pr.keyPIDs, mem, pr.edKeys, pr.ecKeys, pr.T, pr.Pub, msg)
		if rc.Failed() {
			return
		}
		if !ok {
			rc.Fail("old-key-unusable", "after an interrupted resharing the old members %v cannot sign: %s", mem, detail)
			return
		}
		rc.Res.Probes["old_key_signatures_after_cut"]++
	}
}

// driveReshareChain: 2-4 successive EdDSA resharings, each followed by a signature.
func driveReshareChain(rc *RunCtx) {
	sc := rc.Sc
	r := rand.New(rand.NewPCG(seedFor(sc.Seed, sc.Run, "chain"), 9))
	n, t := sc.Int("n", 3), sc.Int("t", 1)
	idk := idKeys(idRand("key", n, sc.Int("idpool", 0)), "small", n, Ed.Order(), 0)
	keys, pids, ok := rc.EdKeygenQuiet("keygen", idk, t)
	if !ok {
		return
	}
	pub := pt(keys[0].EDDSAPub.X(), keys[0].EDDSAPub.Y())
	links := sc.Int("links", 2)
	var shape []string
	for l := 0; l < links; l++ {
		part := t + 1 + r.IntN(n-t)
		members := randSubset(r.IntN, n, part)
		opids := subsetPIDs("o", pids, members)
		nn, ntt := nt(r, 4)
		newIDs := idKeys(r, "small", nn, Ed.Order(), int64(1000*(l+1)))
		w := rc.NewWorld(fmt.Sprintf("link%d", l))
		oldIn := edKeysFor(opids, keys)
		olds, news := w.AddEdResharing(opids, oldIn, t, newIDs, ntt)
		w.AttachBasicInvariants()
		pr := &ProtoRun{RC: rc, Proto: "ed-reshare", Curve: "ed", W: w, Olds: olds, News: news, Nodes: append(append([]*Node{}, olds...), news...),
			N: n, T: t, NewN: nn, NewT: ntt, Pub: pub, edKeys: keys, keyPIDs: pids, edOldIn: oldIn, Members: members, ackType: "eddsa.resharing.DGRound4Message"}
		pr.AttachEraseOrdering()
		cfg := sc.Sched
		if !w.RunSchedule(&cfg) || rc.Failed() {
			if !rc.Failed() {
				rc.Fail("step-cap", "link %d did not drain", l)
			}
			return
		}
		if e := w.AllFinished(); e != "" {
			rc.Fail("not-finished", "link %d: %s", l, e)
			return
		}
		if !pr.CheckCompleted(40) {
			return
		}
		ed, _, npids := pr.newKeyData()
		s := randSubset(r.IntN, nn, ntt+1)
		okSig, _, detail := rc.signQuiet("ed", fmt.Sprintf("sign%d", l), npids, s, ed, nil, ntt, pub, big.NewInt(int64(77+l)))
		if rc.Failed() {
			return
		}
		if !okSig {
			rc.Fail("new-shares-cannot-sign", "after link %d new members %v cannot sign under the original key: %s", l, s, detail)
			return
		}
		shape = append(shape, fmt.Sprintf("(%d of %d, t=%d)->(n'=%d,t'=%d)", part, n, t, nn, ntt))
		keys, pids, n, t = ed, npids, nn, ntt
		rc.Res.Probes["chain_links"]++
	}
	rc.Res.Sample = map[string]interface{}{"chain": shape, "strategy": sc.Sched.Strategy}
}

func genC04(tier string, seed uint64, run int) *Scenario {
	r := rand.New(rand.NewPCG(seedFor(seed, "C04", run, "gen"), 1))
	ecEvery := 9
	if tier == "thorough" {
		ecEvery = 7
	}
	if run%ecEvery != ecEvery-1 && run%6 == 5 {
		n, t := nt(r, 4)
		sc := &Scenario{Check: "C04", Kind: "reshare-chain", Seed: seed, Run: run, P: map[string]interface{}{"n": n, "t": t, "links": 2 + r.IntN(3), "idpool": r.IntN(3)}}
		sc.Sched = GenSched(r, 5, true, false)
		return sc
	}
	proto := "ed-reshare"
	if run%ecEvery == ecEvery-1 {
		proto = "ec-reshare"
	}
	p := map[string]interface{}{"proto": proto}
	nodes := fillProtoParams(r, tier, proto, p)
	mode := run % 4
	if proto == "ec-reshare" {
		// run%ecEvery and run%4 are not independent (quick: every ECDSA run would get the same mode):
		// ECDSA runs cycle through the modes by their own ordinal
		k := run / ecEvery
		mode = []int{0, 3, 1, 2}[k%4]
		// proofs enabled in three of four ECDSA runs (the production path)
		p["noproofs"] = k%5 == 4
		if k%8 == 4 || k%8 == 0 {
			// an old committee whose session id has a leading zero byte (ssid.go); k%8 == 0 is the run with four
			// new members and every proof switched on
			p["shortssid"] = true
		}
		p["signsubsets"] = 1
		if k%8 == 0 {
			// a new committee with a threshold above 2 (powers beyond the square in the share-point evaluation)
			p["newn"], p["newt"] = 4, 3
			nodes = 3 + 4
		}
	} else {
		p["signsubsets"] = 4
		p["undersized"] = true
	}
	if run%16 == 3 {
		p["newids"] = "congruent" // an inadmissible new committee: the last id is congruent to the first modulo q
		mode = 0
	}
	sc := &Scenario{Check: "C04", Kind: "reshare", Seed: seed, Run: run, P: p}
	sc.Sched = GenSched(r, nodes, true, false)
	switch mode {
	case 0:
		p["mode"] = "complete"
	case 1:
		p["mode"] = "cut"
		// message count of a fault-free run is about olds*news*2 + news*(olds+news)*2; cut anywhere
		sc.Sched.CutAt = 1 + r.IntN(nodes*nodes*2+4)
	case 2:
		p["mode"] = "silence"
		sc.Sched.SilenceNode = r.IntN(nodes)
		sc.Sched.SilenceAt = 1 + r.IntN(nodes*nodes+2)
	case 3:
		// one party's entropy source fails at one of its reads: the call in progress panics out of the
		// library in mid-step (state half-updated, nothing more sent). Position: anywhere, or biased
		// towards the last reads (a new ECDSA member's are the factorisation proofs it builds between
		// storing its new share and acknowledging) or the first ones
		p["mode"] = "crash"
		p["crash_node"] = r.IntN(nodes)
		if proto == "ec-reshare" && r.IntN(3) > 0 {
			p["crash_node"] = 3 + r.IntN(nodes-3) // a new member
		}
		switch r.IntN(3) {
		case 0:
			p["crash_pos"] = r.IntN(1000)
		case 1:
			p["crash_pos"] = 900 + r.IntN(100)
		default:
			p["crash_pos"] = r.IntN(100)
		}
	}
	return sc
}
