package sim

import (
	"crypto/ed25519"
	"math/big"
)

// Independent curve arithmetic written for the harness (affine coordinates over math/big).
// Nothing here calls into tss-lib, btcec's curve code or the edwards libraries the repo uses.

type Pt struct {
	X, Y *big.Int
	Inf  bool // point at infinity (Weierstrass only)
}

type Group interface {
	Name() string
	Order() *big.Int
	Base() Pt
	Identity() Pt
	Add(a, b Pt) Pt
	OnCurve(p Pt) bool
}

func GMul(g Group, k *big.Int, p Pt) Pt {
	k = new(big.Int).Mod(k, g.Order())
	r := g.Identity()
	for i := k.BitLen() - 1; i >= 0; i-- {
		r = g.Add(r, r)
		if k.Bit(i) == 1 {
			r = g.Add(r, p)
		}
	}
	return r
}

func PtEq(a, b Pt) bool {
	if a.Inf || b.Inf {
		return a.Inf == b.Inf
	}
	return a.X.Cmp(b.X) == 0 && a.Y.Cmp(b.Y) == 0
}

func hexInt(s string) *big.Int {
	v, ok := new(big.Int).SetString(s, 16)
	if !ok {
		panic("bad hex")
	}
	return v
}

// ---- secp256k1 -------------------------------------------------------------------------------

type secpGroup struct{ p, n, gx, gy *big.Int }

var Secp = &secpGroup{
	p:  hexInt("fffffffffffffffffffffffffffffffffffffffffffffffffffffffefffffc2f"),
	n:  hexInt("fffffffffffffffffffffffffffffffebaaedce6af48a03bbfd25e8cd0364141"),
	gx: hexInt("79be667ef9dcbbac55a06295ce870b07029bfcdb2dce28d959f2815b16f81798"),
	gy: hexInt("483ada7726a3c4655da4fbfc0e1108a8fd17b448a68554199c47d08ffb10d4b8"),
}

func (g *secpGroup) Name() string    { return "secp256k1" }
func (g *secpGroup) Order() *big.Int { return g.n }
func (g *secpGroup) Base() Pt        { return Pt{X: g.gx, Y: g.gy} }
func (g *secpGroup) Identity() Pt    { return Pt{Inf: true} }
func (g *secpGroup) P() *big.Int     { return g.p }
func (g *secpGroup) OnCurve(a Pt) bool {
	if a.Inf {
		return true
	}
	if a.X.Sign() < 0 || a.Y.Sign() < 0 || a.X.Cmp(g.p) >= 0 || a.Y.Cmp(g.p) >= 0 {
		return false
	}
	l := new(big.Int).Mul(a.Y, a.Y)
	l.Mod(l, g.p)
	r := new(big.Int).Mul(a.X, a.X)
	r.Mul(r, a.X)
	r.Add(r, big.NewInt(7))
	r.Mod(r, g.p)
	return l.Cmp(r) == 0
}
func (g *secpGroup) Add(a, b Pt) Pt {
	if a.Inf {
		return b
	}
	if b.Inf {
		return a
	}
	var lam *big.Int
	if a.X.Cmp(b.X) == 0 {
		if a.Y.Cmp(b.Y) != 0 || a.Y.Sign() == 0 {
			return Pt{Inf: true}
		}
		num := new(big.Int).Mul(a.X, a.X)
		num.Mul(num, big.NewInt(3))
		den := new(big.Int).Lsh(a.Y, 1)
		den.ModInverse(den, g.p)
		lam = num.Mul(num, den)
	} else {
		num := new(big.Int).Sub(b.Y, a.Y)
		den := new(big.Int).Sub(b.X, a.X)
		den.Mod(den, g.p)
		den.ModInverse(den, g.p)
		lam = num.Mul(num, den)
	}
	lam.Mod(lam, g.p)
	x := new(big.Int).Mul(lam, lam)
	x.Sub(x, a.X)
	x.Sub(x, b.X)
	x.Mod(x, g.p)
	y := new(big.Int).Sub(a.X, x)
	y.Mul(y, lam)
	y.Sub(y, a.Y)
	y.Mod(y, g.p)
	return Pt{X: x, Y: y}
}

// ECDSAVerify: textbook verification of (r,s) on integer digest e under public key Q.
func ECDSAVerify(Q Pt, e, r, s *big.Int) bool {
	g := Secp
	if r.Sign() <= 0 || s.Sign() <= 0 || r.Cmp(g.n) >= 0 || s.Cmp(g.n) >= 0 {
		return false
	}
	if Q.Inf || !g.OnCurve(Q) {
		return false
	}
	w := new(big.Int).ModInverse(s, g.n)
	u1 := new(big.Int).Mul(e, w)
	u1.Mod(u1, g.n)
	u2 := new(big.Int).Mul(r, w)
	u2.Mod(u2, g.n)
	R := g.Add(GMul(g, u1, g.Base()), GMul(g, u2, Q))
	if R.Inf {
		return false
	}
	return new(big.Int).Mod(R.X, g.n).Cmp(r) == 0
}

// ECDSARecover recovers the public key from (r,s,recid) and integer digest e.
func ECDSARecover(e, r, s *big.Int, recid byte) (Pt, bool) {
	g := Secp
	x := new(big.Int).Set(r)
	if recid&2 != 0 {
		x.Add(x, g.n)
	}
	if x.Cmp(g.p) >= 0 {
		return Pt{}, false
	}
	// y^2 = x^3+7 ; p ≡ 3 mod 4
	y2 := new(big.Int).Mul(x, x)
	y2.Mul(y2, x)
	y2.Add(y2, big.NewInt(7))
	y2.Mod(y2, g.p)
	exp := new(big.Int).Add(g.p, big.NewInt(1))
	exp.Rsh(exp, 2)
	y := new(big.Int).Exp(y2, exp, g.p)
	if new(big.Int).Mod(new(big.Int).Mul(y, y), g.p).Cmp(y2) != 0 {
		return Pt{}, false
	}
	if y.Bit(0) != uint(recid&1) {
		y.Sub(g.p, y)
	}
	R := Pt{X: x, Y: y}
	rinv := new(big.Int).ModInverse(r, g.n)
	// Q = r^-1 (s R - e G)
	sR := GMul(g, s, R)
	eG := GMul(g, new(big.Int).Neg(e), g.Base())
	Q := GMul(g, rinv, g.Add(sR, eG))
	return Q, !Q.Inf
}

// ---- edwards25519 ----------------------------------------------------------------------------

type edGroup struct{ p, n, d, gx, gy *big.Int }

var Ed = func() *edGroup {
	p := new(big.Int).Sub(new(big.Int).Lsh(big.NewInt(1), 255), big.NewInt(19))
	n := new(big.Int).Add(new(big.Int).Lsh(big.NewInt(1), 252), hexInt("14def9dea2f79cd65812631a5cf5d3ed"))
	// d = -121665/121666
	d := new(big.Int).ModInverse(big.NewInt(121666), p)
	d.Mul(d, big.NewInt(-121665))
	d.Mod(d, p)
	gy := new(big.Int).ModInverse(big.NewInt(5), p)
	gy.Mul(gy, big.NewInt(4))
	gy.Mod(gy, p)
	g := &edGroup{p: p, n: n, d: d, gy: gy}
	g.gx = g.recoverX(gy, false)
	return g
}()

func (g *edGroup) recoverX(y *big.Int, neg bool) *big.Int {
	// x^2 = (y^2-1)/(d y^2+1)
	y2 := new(big.Int).Mul(y, y)
	num := new(big.Int).Sub(y2, big.NewInt(1))
	den := new(big.Int).Mul(g.d, y2)
	den.Add(den, big.NewInt(1))
	den.Mod(den, g.p)
	den.ModInverse(den, g.p)
	x2 := num.Mul(num, den)
	x2.Mod(x2, g.p)
	x := new(big.Int).ModSqrt(x2, g.p)
	if x == nil {
		return nil
	}
	if (x.Bit(0) == 1) != neg {
		x.Sub(g.p, x)
	}
	return x
}

func (g *edGroup) Name() string    { return "ed25519" }
func (g *edGroup) Order() *big.Int { return g.n }
func (g *edGroup) Base() Pt        { return Pt{X: g.gx, Y: g.gy} }
func (g *edGroup) Identity() Pt    { return Pt{X: big.NewInt(0), Y: big.NewInt(1)} }
func (g *edGroup) OnCurve(a Pt) bool {
	if a.X.Sign() < 0 || a.Y.Sign() < 0 || a.X.Cmp(g.p) >= 0 || a.Y.Cmp(g.p) >= 0 {
		return false
	}
	x2 := new(big.Int).Mul(a.X, a.X)
	y2 := new(big.Int).Mul(a.Y, a.Y)
	l := new(big.Int).Sub(y2, x2)
	l.Mod(l, g.p)
	r := new(big.Int).Mul(x2, y2)
	r.Mul(r, g.d)
	r.Add(r, big.NewInt(1))
	r.Mod(r, g.p)
	return l.Cmp(r) == 0
}
func (g *edGroup) Add(a, b Pt) Pt {
	// x3 = (x1y2+x2y1)/(1+d x1x2y1y2), y3 = (y1y2+x1x2)/(1-d x1x2y1y2)
	x1y2 := new(big.Int).Mul(a.X, b.Y)
	x2y1 := new(big.Int).Mul(b.X, a.Y)
	y1y2 := new(big.Int).Mul(a.Y, b.Y)
	x1x2 := new(big.Int).Mul(a.X, b.X)
	t := new(big.Int).Mul(x1x2, y1y2)
	t.Mod(t, g.p)
	t.Mul(t, g.d)
	t.Mod(t, g.p)
	dx := new(big.Int).Add(big.NewInt(1), t)
	dx.ModInverse(dx.Mod(dx, g.p), g.p)
	dy := new(big.Int).Sub(big.NewInt(1), t)
	dy.ModInverse(dy.Mod(dy, g.p), g.p)
	x := new(big.Int).Add(x1y2, x2y1)
	x.Mul(x, dx)
	x.Mod(x, g.p)
	y := new(big.Int).Add(y1y2, x1x2)
	y.Mul(y, dy)
	y.Mod(y, g.p)
	return Pt{X: x, Y: y}
}

// gMulRaw multiplies without reducing the scalar modulo the group order (needed to reach torsion).
func gMulRaw(g Group, k *big.Int, p Pt) Pt {
	r := g.Identity()
	for i := k.BitLen() - 1; i >= 0; i-- {
		r = g.Add(r, r)
		if k.Bit(i) == 1 {
			r = g.Add(r, p)
		}
	}
	return r
}

var edTorsion []Pt

// EdTorsion returns the eight points of the torsion subgroup of edwards25519 (index 0 = identity),
// computed from the curve equation: multiply points by the prime order until one of order 8 appears.
func EdTorsion() []Pt {
	if edTorsion != nil {
		return edTorsion
	}
	for y := int64(2); ; y++ {
		x := Ed.recoverX(big.NewInt(y), false)
		if x == nil {
			continue
		}
		t := gMulRaw(Ed, Ed.n, Pt{X: x, Y: big.NewInt(y)})
		t4 := gMulRaw(Ed, big.NewInt(4), t)
		if PtEq(t4, Ed.Identity()) {
			continue // order divides 4
		}
		for k := int64(0); k < 8; k++ {
			edTorsion = append(edTorsion, gMulRaw(Ed, big.NewInt(k), t))
		}
		return edTorsion
	}
}

// EdEncode gives the standard 32-byte encoding of an affine point.
func EdEncode(p Pt) []byte {
	out := make([]byte, 32)
	yb := new(big.Int).Mod(p.Y, Ed.p).Bytes()
	for i := 0; i < len(yb); i++ {
		out[i] = yb[len(yb)-1-i]
	}
	if new(big.Int).Mod(p.X, Ed.p).Bit(0) == 1 {
		out[31] |= 0x80
	}
	return out
}

// EdVerify uses Go's crypto/ed25519 (independent of the libraries tss-lib links).
func EdVerify(pub Pt, msg, sig []byte) bool {
	if len(sig) != 64 {
		return false
	}
	return ed25519.Verify(ed25519.PublicKey(EdEncode(pub)), msg, sig)
}

// ---- Shamir / Feldman algebra ----------------------------------------------------------------

// LagrangeAtZero returns the coefficients l_i with sum l_i f(x_i) = f(0) mod q.
func LagrangeAtZero(xs []*big.Int, q *big.Int) []*big.Int {
	out := make([]*big.Int, len(xs))
	for i := range xs {
		num, den := big.NewInt(1), big.NewInt(1)
		for j := range xs {
			if i == j {
				continue
			}
			num.Mul(num, xs[j])
			num.Mod(num, q)
			d := new(big.Int).Sub(xs[j], xs[i])
			d.Mod(d, q)
			den.Mul(den, d)
			den.Mod(den, q)
		}
		den.ModInverse(den, q)
		out[i] = num.Mul(num, den)
		out[i].Mod(out[i], q)
	}
	return out
}

// InterpolateExp computes sum l_i * P_i for the given subset.
func InterpolateExp(g Group, xs []*big.Int, ps []Pt) Pt {
	ls := LagrangeAtZero(xs, g.Order())
	acc := g.Identity()
	for i := range xs {
		acc = g.Add(acc, GMul(g, ls[i], ps[i]))
	}
	return acc
}

// subsets enumerates all k-subsets of {0..n-1} (or up to max of them).
func subsets(n, k, max int) [][]int {
	var out [][]int
	idx := make([]int, k)
	var rec func(start, d int)
	rec = func(start, d int) {
		if max > 0 && len(out) >= max {
			return
		}
		if d == k {
			out = append(out, append([]int{}, idx...))
			return
		}
		for i := start; i < n; i++ {
			idx[d] = i
			rec(i+1, d+1)
		}
	}
	rec(0, 0)
	return out
}
