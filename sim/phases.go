package sim

import (
	"fmt"
	"math/big"
	"sort"

	"github.com/bnb-chain/tss-lib/v2/common"
	"github.com/bnb-chain/tss-lib/v2/crypto"
	eckg "github.com/bnb-chain/tss-lib/v2/ecdsa/keygen"
	edkg "github.com/bnb-chain/tss-lib/v2/eddsa/keygen"
	"github.com/bnb-chain/tss-lib/v2/tss"
)

// Invariants that hold in every run of every check (no property-specific wording).
func (w *World) AttachBasicInvariants() {
	w.AfterStep = append(w.AfterStep, func(ev *StepEvent) *Violation {
		n := ev.Node
		if len(n.Results) > 1 {
			return w.fail("double-result", "node %s put %d values on its end channel", n.Name, len(n.Results))
		}
		if len(n.Results) == 1 && len(ev.NewRes) == 0 && len(ev.Emitted) > 0 {
			return w.fail("emit-after-finish", "node %s emitted %s after it had finished", n.Name, ev.Emitted[0].Type)
		}
		return nil
	})
}

// AttachModel adds the C08 refinement check. classes listed in `only` restrict nothing; the
// tracker is returned so that callers can query it.
func (w *World) AttachModel(name string, checkWaiting bool) *ModelTracker {
	t := NewModelTracker(w, Models[name])
	w.AfterStep = append(w.AfterStep, func(ev *StepEvent) *Violation {
		return t.Check(ev, checkWaiting)
	})
	return t
}

// AllFinished: drained-network liveness and exactly-once. Returns an error text or "".
func (w *World) AllFinished() string {
	for _, n := range w.Nodes {
		if n.Silenced || n.Byz {
			continue
		}
		if len(n.Errs) > 0 {
			return fmt.Sprintf("node %s reported an error: %s", n.Name, errString(n.Errs[0]))
		}
		if len(n.Results) != 1 {
			return fmt.Sprintf("node %s has %d results after the network drained (waiting for %v, %s)", n.Name, len(n.Results), w.waitingNames(n), n.Party.String())
		}
	}
	return ""
}

// ---- EdDSA phases ----------------------------------------------------------------------------

func edSaves(nodes []*Node) []*edkg.LocalPartySaveData {
	out := make([]*edkg.LocalPartySaveData, len(nodes))
	for i, n := range nodes {
		if len(n.Results) > 0 {
			out[i], _ = n.Results[0].(*edkg.LocalPartySaveData)
		}
	}
	return out
}

func ecSaves(nodes []*Node) []*eckg.LocalPartySaveData {
	out := make([]*eckg.LocalPartySaveData, len(nodes))
	for i, n := range nodes {
		if len(n.Results) > 0 {
			out[i], _ = n.Results[0].(*eckg.LocalPartySaveData)
		}
	}
	return out
}

func sigs(nodes []*Node) []*common.SignatureData {
	out := make([]*common.SignatureData, len(nodes))
	for i, n := range nodes {
		if len(n.Results) > 0 {
			out[i], _ = n.Results[0].(*common.SignatureData)
		}
	}
	return out
}

// EdKeygenQuiet runs a FIFO fault-free EdDSA keygen as a prelude and validates it with the C03
// oracle (so that a broken keygen cannot silently feed a signing check).
func (rc *RunCtx) EdKeygenQuiet(tag string, idk []*big.Int, t int) ([]edkg.LocalPartySaveData, tss.SortedPartyIDs, bool) {
	ck := fmt.Sprintf("ed|%s|%d|%d|%v", PIDStrings, len(idk), t, idk)
	if c, ok := edKeyCache[ck]; ok {
		rc.Res.Probes["prelude_cache_hit"]++
		return cloneEdKeys(c.keys), clonePIDs(c.pids), true
	}
	w := NewWorld("prelude/"+ck, NewChooser(0, nil, true))
	w.Quiet = true
	rc.Worlds = append(rc.Worlds, w)
	nodes := w.AddEdKeygen(idk, t)
	w.AttachBasicInvariants()
	drained := w.RunSchedule(&SchedConfig{Strategy: "fifo"})
	if w.Violation != nil {
		return nil, nil, false
	}
	if !drained {
		rc.Fail("prelude", "keygen prelude did not drain")
		return nil, nil, false
	}
	if s := w.AllFinished(); s != "" {
		rc.Fail("prelude-keygen", "keygen prelude: %s", s)
		return nil, nil, false
	}
	saves := edSaves(nodes)
	views := make([]*KeyView, len(saves))
	out := make([]edkg.LocalPartySaveData, len(saves))
	pids := make(tss.SortedPartyIDs, len(nodes))
	for i, s := range saves {
		v, err := ViewEd(nodes[i].Name, s)
		if err != nil {
			rc.Fail("prelude-keygen", "%v", err)
			return nil, nil, false
		}
		views[i] = v
		out[i] = *s
		pids[i] = nodes[i].PID
	}
	if err := CheckSharing(Ed, views, t, 60); err != nil {
		rc.Fail("prelude-keygen", "keygen prelude produced an inconsistent sharing: %v", err)
		return nil, nil, false
	}
	edKeyCache[ck] = edCached{keys: cloneEdKeys(out), pids: clonePIDs(pids)}
	return out, pids, true
}

type edCached struct {
	keys []edkg.LocalPartySaveData
	pids tss.SortedPartyIDs
}

// in-process cache of prelude keys, keyed by (n, t, ids); entries were validated by the C03
// oracle when generated in this process from the tree under test.
var edKeyCache = map[string]edCached{}

func cloneEdKeys(in []edkg.LocalPartySaveData) []edkg.LocalPartySaveData {
	out := make([]edkg.LocalPartySaveData, len(in))
	for i, k := range in {
		c := edkg.NewLocalPartySaveData(len(k.Ks))
		c.Xi = new(big.Int).Set(k.Xi)
		c.ShareID = new(big.Int).Set(k.ShareID)
		for j := range k.Ks {
			c.Ks[j] = new(big.Int).Set(k.Ks[j])
			p, err := crypto.NewECPoint(tss.Edwards(), k.BigXj[j].X(), k.BigXj[j].Y())
			if err != nil {
				panic(err)
			}
			c.BigXj[j] = p
		}
		p, err := crypto.NewECPoint(tss.Edwards(), k.EDDSAPub.X(), k.EDDSAPub.Y())
		if err != nil {
			panic(err)
		}
		c.EDDSAPub = p
		out[i] = c
	}
	return out
}

// subsetPIDs builds fresh signer ids for the chosen member indices and the matching key data.
func subsetPIDs(prefix string, pids tss.SortedPartyIDs, members []int) tss.SortedPartyIDs {
	ks := make([]*big.Int, len(members))
	for i, m := range members {
		ks[i] = pids[m].KeyInt()
	}
	return MakePIDs(prefix, ks)
}

func edKeysFor(pids tss.SortedPartyIDs, all []edkg.LocalPartySaveData) []edkg.LocalPartySaveData {
	out := make([]edkg.LocalPartySaveData, len(pids))
	for i, p := range pids {
		for _, k := range all {
			if k.ShareID.Cmp(p.KeyInt()) == 0 {
				out[i] = k
			}
		}
	}
	return out
}

func ecKeysFor(pids tss.SortedPartyIDs, all []eckg.LocalPartySaveData) []eckg.LocalPartySaveData {
	out := make([]eckg.LocalPartySaveData, len(pids))
	for i, p := range pids {
		for _, k := range all {
			if k.ShareID.Cmp(p.KeyInt()) == 0 {
				out[i] = k
			}
		}
	}
	return out
}

// randSubset draws a sorted subset of size k of {0..n-1}.
func randSubset(intn func(int) int, n, k int) []int {
	p := make([]int, n)
	for i := range p {
		p[i] = i
	}
	for i := 0; i < k; i++ {
		j := i + intn(n-i)
		p[i], p[j] = p[j], p[i]
	}
	s := append([]int{}, p[:k]...)
	sort.Ints(s)
	return s
}

// CheckSigOutputs: every finisher has the same signature and it passes the curve's oracle.
func (rc *RunCtx) CheckSigOutputs(curve string, nodes []*Node, pub Pt, msg *big.Int, fullBytesLen int) bool {
	ss := sigs(nodes)
	var first *common.SignatureData
	for i, s := range ss {
		if nodes[i].Byz || nodes[i].Silenced {
			continue
		}
		if s == nil {
			continue
		}
		var err error
		if curve == "ed" {
			err = CheckEdDSASig(s, pub, msg, fullBytesLen)
		} else {
			err = CheckECDSASig(s, pub, msg, fullBytesLen)
		}
		if err != nil {
			rc.Fail("bad-signature", "node %s output: %v", nodes[i].Name, err)
			return false
		}
		if first == nil {
			first = s
		} else if !sigEqual(first, s) {
			rc.Fail("signature-mismatch", "node %s output a different signature than another finisher", nodes[i].Name)
			return false
		}
	}
	return true
}
