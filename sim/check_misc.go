package sim

import (
	"fmt"
	"math/big"
	"math/rand/v2"
	"strings"

	"github.com/bnb-chain/tss-lib/v2/crypto"
	"github.com/bnb-chain/tss-lib/v2/crypto/mta"
	"github.com/bnb-chain/tss-lib/v2/crypto/vss"
	eckg "github.com/bnb-chain/tss-lib/v2/ecdsa/keygen"
	edkg "github.com/bnb-chain/tss-lib/v2/eddsa/keygen"
	"github.com/bnb-chain/tss-lib/v2/tss"
)

func init() {
	Drivers["mta"] = driveMtA
	Drivers["vss-wire"] = driveVSSWire
	Drivers["vss-ids"] = driveVSSIDs
	Gens["C13"] = genC13
	Gens["C15"] = genC15
}

// ---- C13 (ii): two-node Alice/Bob exchange over the simulated transport ---------------------------

// In this exchange the "transport" carries cA+proof from Alice to Bob and cB+proof back, as wire
// parts ([][]byte) that are parsed again on the other side; alterations happen in flight. There is
// no scheduling freedom in a two-message exchange; the evidence says so.
func driveMtA(rc *RunCtx) {
	sc := rc.Sc
	fx, err := LoadECFixtures()
	if err != nil {
		rc.Fail("harness", "fixtures: %v", err)
		return
	}
	ai, bi := sc.Int("alice", 0), sc.Int("bob", 1)
	A, B := fx[ai], fx[bi]
	q := Secp.n
	r := rand.New(rand.NewPCG(seedFor(sc.Seed, sc.Run, "mta"), 29))
	val := func(kind string) *big.Int {
		switch kind {
		case "zero":
			return big.NewInt(0)
		case "one":
			return big.NewInt(1)
		case "qm1":
			return new(big.Int).Sub(q, big.NewInt(1))
		}
		b := make([]byte, 32)
		for i := range b {
			b[i] = byte(r.UintN(256))
		}
		return new(big.Int).Mod(new(big.Int).SetBytes(b), q)
	}
	a, b := val(sc.Str("a", "rand")), val(sc.Str("b", "rand"))
	wc := sc.Bool("wc")
	alter := sc.Str("alter", "none")
	st := &Stepper{Seed: rc.EntropySeed("mta"), Ch: NewChooser(0, nil, true)}
	randA, randB := st.NewNodeRand("alice", "rand"), st.NewNodeRand("bob", "rand")
	ec := tss.S256()
	session := []byte(fmt.Sprintf("session-%d", sc.Run%3))
	if sc.Run%3 == 0 {
		session = []byte{}
	}
	var fail string
	outcome := "ok"
	out := st.Run(func() {
		// Alice -> wire
		cA, pfA, err := mta.AliceInit(ec, &A.PaillierSK.PublicKey, a, B.NTildei, B.H1i, B.H2i, randA)
		if err != nil {
			if a.Sign() == 0 {
				outcome = "alice-refused-zero"
				return
			}
			fail = fmt.Sprintf("AliceInit failed on an admissible secret: %v", err)
			return
		}
		parts := pfA.Bytes()
		wireA := make([][]byte, len(parts))
		for i := range parts {
			wireA[i] = append([]byte{}, parts[i]...)
		}
		cAw := new(big.Int).Set(cA)
		switch alter {
		case "cA+1":
			cAw.Add(cAw, big.NewInt(1))
		case "cA-rand":
			cAw, _ = A.PaillierSK.PublicKey.Encrypt(randB, val("rand"))
		case "cA+N":
			cAw.Add(cAw, A.PaillierSK.N)
		}
		pfA2, err := mta.RangeProofAliceFromBytes(wireA)
		if err != nil {
			fail = fmt.Sprintf("Alice's proof does not parse back from its wire parts: %v", err)
			return
		}
		// Bob
		var beta, cB *big.Int
		var wireB [][]byte
		var Bpt *crypto.ECPoint
		var directB *mta.ProofBobWC
		if wc {
			if b.Sign() == 0 {
				// b*G is the identity: the library cannot represent it; not an MtA matter
				outcome = "skipped-identity-point"
				return
			}
			Bpt = crypto.ScalarBaseMult(ec, b)
			if alter == "wrong-point" || alter == "unchecked-proof" {
				// another point than b*G ((b+1)*G; (b+2)*G when b+1 is the group order, whose multiple is the
				// identity and cannot be represented)
				wrong := new(big.Int).Add(b, big.NewInt(1))
				if new(big.Int).Mod(wrong, q).Sign() == 0 {
					wrong.Add(wrong, big.NewInt(1))
				}
				Bpt = crypto.ScalarBaseMult(ec, wrong)
			}
			var pfB *mta.ProofBobWC
			bpt := crypto.ScalarBaseMult(ec, b)
			if alter == "unchecked-proof" {
				// a deviating Bob answers the with-check exchange with the proof of the exchange without check
				// (which says nothing about his point) in the shape the library's own prover gives it. The
				// wire parser refuses that shape, so this reaches Alice only through the package API.
				var nc *mta.ProofBob
				beta, cB, _, nc, err = mta.BobMid(session, ec, &A.PaillierSK.PublicKey, pfA2, b, cAw, A.NTildei, A.H1i, A.H2i, B.NTildei, B.H1i, B.H2i, randB)
				if err == nil {
					directB = &mta.ProofBobWC{ProofBob: nc, U: crypto.NewECPointNoCurveCheck(ec, big.NewInt(0), big.NewInt(0))}
				}
			} else {
				beta, cB, _, pfB, err = mta.BobMidWC(session, ec, &A.PaillierSK.PublicKey, pfA2, b, cAw, A.NTildei, A.H1i, A.H2i, B.NTildei, B.H1i, B.H2i, bpt, randB)
			}
			if err == nil && pfB != nil {
				p := pfB.Bytes()
				for i := range p {
					wireB = append(wireB, append([]byte{}, p[i]...))
				}
			}
		} else {
			var pfB *mta.ProofBob
			beta, cB, _, pfB, err = mta.BobMid(session, ec, &A.PaillierSK.PublicKey, pfA2, b, cAw, A.NTildei, A.H1i, A.H2i, B.NTildei, B.H1i, B.H2i, randB)
			if err == nil {
				p := pfB.Bytes()
				for i := range p {
					wireB = append(wireB, append([]byte{}, p[i]...))
				}
			}
		}
		if err != nil {
			if strings.HasPrefix(alter, "cA") {
				outcome = "bob-rejected"
				return
			}
			fail = fmt.Sprintf("Bob rejected an honest Alice: %v", err)
			return
		}
		if strings.HasPrefix(alter, "cA") {
			fail = fmt.Sprintf("Bob accepted Alice's ciphertext altered in transit (%s) and produced a share", alter)
			return
		}
		cBw := new(big.Int).Set(cB)
		switch alter {
		case "cB+1":
			cBw.Add(cBw, big.NewInt(1))
		case "cB+N":
			cBw.Add(cBw, A.PaillierSK.N)
		case "cB-rand":
			cBw, _ = A.PaillierSK.PublicKey.Encrypt(randB, val("rand"))
		}
		// Alice end
		var alpha *big.Int
		if wc {
			pfB2 := directB
			if pfB2 == nil {
				pfB2, err = mta.ProofBobWCFromBytes(ec, wireB)
				if err != nil {
					fail = fmt.Sprintf("Bob's proof does not parse back from its wire parts: %v", err)
					return
				}
			}
			alpha, err = mta.AliceEndWC(session, ec, &A.PaillierSK.PublicKey, pfB2, Bpt, cA, cBw, A.NTildei, A.H1i, A.H2i, A.PaillierSK)
			if err != nil {
				if alter != "none" {
					outcome = "alice-rejected"
					return
				}
				fail = fmt.Sprintf("Alice rejected an honest Bob (with check): %v", err)
				return
			}
		} else {
			pfB2, err := mta.ProofBobFromBytes(wireB)
			if err != nil {
				fail = fmt.Sprintf("Bob's proof does not parse back from its wire parts: %v", err)
				return
			}
			alpha, err = mta.AliceEnd(session, ec, &A.PaillierSK.PublicKey, pfB2, A.H1i, A.H2i, cA, cBw, A.NTildei, A.PaillierSK)
			if err != nil {
				if alter != "none" {
					outcome = "alice-rejected"
					return
				}
				fail = fmt.Sprintf("Alice rejected an honest Bob: %v", err)
				return
			}
		}
		if alter != "none" {
			fail = fmt.Sprintf("Alice produced a share although %s happened in transit", alter)
			return
		}
		sum := new(big.Int).Add(alpha, beta)
		sum.Mod(sum, q)
		want := new(big.Int).Mul(a, b)
		want.Mod(want, q)
		if sum.Cmp(want) != 0 {
			fail = fmt.Sprintf("alpha+beta != a*b mod q (a=%x b=%x)", a, b)
		}
	})
	if out.Panic != nil {
		rc.Fail("panic", "MtA exchange panicked: %v\n%s", out.Panic, firstRepoFrames(out.Stack))
		rc.Res.Violation.Key = "mta-panic@" + stripLine(PanicSite(out.Stack))
		return
	}
	if out.Deadlock {
		rc.Fail("deadlock", "MtA exchange never returned")
		return
	}
	if fail != "" {
		rc.Fail("mta", "alice=%d bob=%d a=%s b=%s wc=%v alter=%s: %s", ai, bi, sc.Str("a", ""), sc.Str("b", ""), wc, alter, fail)
		return
	}
	rc.Res.Probes["mta_"+outcome]++
	rc.Res.Nontrivial = true
	rc.Res.LogHash = ""
	rc.Res.Sample = map[string]interface{}{"alice_params": ai, "bob_params": bi, "a": sc.Str("a", ""), "b": sc.Str("b", ""), "with_check": wc, "alter": alter, "outcome": outcome}
}

func genC13(tier string, seed uint64, run int) *Scenario {
	// two thirds in-situ ciphertext cells, one third two-node exchanges
	if run%3 != 2 {
		sc := cellScenario("C13", tier, seed, run-run/3)
		if sc != nil {
			sc.P["must_reject"] = true
		}
		if sc == nil && tier == "thorough" && run < 4000 {
			// cells exhausted: only exchanges remain
			return genMtA(seed, run)
		}
		return sc
	}
	return genMtA(seed, run)
}

func genMtA(seed uint64, run int) *Scenario {
	r := rand.New(rand.NewPCG(seedFor(seed, "C13", run, "gen"), 1))
	vals := []string{"zero", "one", "qm1", "rand"}
	alters := []string{"cA+1", "cA-rand", "cA+N", "cB+1", "cB+N", "cB-rand", "wrong-point", "unchecked-proof"}
	k := run / 3
	// (a,b) cycles fastest so that every quick run covers all sixteen combinations; the ordered pair
	// of parameter sets cycles next
	p := map[string]interface{}{"alice": (k / 16) % 5, "bob": ((k/16)/5 + 1 + (k/16)%5) % 5, "a": vals[k%4], "b": vals[(k/4)%4], "wc": r.IntN(2) == 0, "alter": alters[(k%48+k/48)%len(alters)]}
	if k%48 < 32 {
		// two thirds of the exchanges are fault-free identity checks: all sixteen (a,b) without and with the point check
		p["alter"] = "none"
		p["wc"] = (k%48)/16 == 1 && p["b"] != "zero"
	}
	if p["alice"] == p["bob"] {
		p["bob"] = (p["alice"].(int) + 1) % 5
	}
	if p["alter"] == "wrong-point" || p["alter"] == "unchecked-proof" {
		p["wc"] = true
		if p["b"] == "zero" {
			p["b"] = "one" // b*G must be representable
		}
	}
	return &Scenario{Check: "C13", Kind: "mta", Seed: seed, Run: run, P: p}
}

// ---- C15: shares read from the wire of an honest keygen ---------------------------------------------

func driveVSSWire(rc *RunCtx) {
	sc := rc.Sc
	pr := rc.SetupProto("main", false)
	if pr == nil {
		return
	}
	w := pr.W
	if !w.RunSchedule(&sc.Sched) || rc.Failed() {
		if !rc.Failed() {
			rc.Fail("step-cap", "keygen did not drain")
		}
		return
	}
	if e := w.AllFinished(); e != "" {
		rc.Fail("not-finished", "%s", e)
		return
	}
	g := pr.group()
	q := g.Order()
	t := pr.T
	shareType, dcmType := "eddsa.keygen.KGRound2Message1", "eddsa.keygen.KGRound2Message2"
	if pr.Curve == "ec" {
		shareType, dcmType = "ecdsa.keygen.KGRound2Message1", "ecdsa.keygen.KGRound2Message2"
	}
	checked := 0
	for _, dealer := range w.Nodes {
		var vs []Pt
		shares := map[int]*big.Int{} // recipient node -> share
		for _, em := range dealer.Emitted {
			m, err := decodeAny(em.Wire)
			if err != nil {
				rc.Fail("harness", "decode: %v", err)
				return
			}
			switch em.Type {
			case shareType:
				b, _ := getField(m, "share", -1)
				shares[em.To[0]] = new(big.Int).SetBytes(b)
			case dcmType:
				n := listLenOf(m, "de_commitment")
				for i := 1; i+1 < n; i += 2 {
					x, _ := getField(m, "de_commitment", i)
					y, _ := getField(m, "de_commitment", i+1)
					vs = append(vs, Pt{X: new(big.Int).SetBytes(x), Y: new(big.Int).SetBytes(y)})
				}
			}
		}
		if len(vs) != t+1 {
			rc.Fail("vss-commitments", "dealer %s published %d commitment points for threshold %d", dealer.Name, len(vs), t)
			return
		}
		// the coefficients of the dealer's polynomial are independent uniform values: two equal commitment
		// points (probability about 1/q for an honest dealer) mean two equal coefficients, and then fewer
		// than t+1 shares carry more information about the secret than they may
		for a := 0; a < len(vs); a++ {
			for b := a + 1; b < len(vs); b++ {
				if PtEq(vs[a], vs[b]) {
					rc.Fail("threshold", "dealer %s: commitment points %d and %d are equal (equal polynomial coefficients): fewer than t+1 shares determine more than they may", dealer.Name, a, b)
					return
				}
			}
		}
		if pr.Curve == "ed" {
			// the library clears the cofactor of received commitments; do the same on the harness side
			for i := range vs {
				vs[i] = GMul(g, big.NewInt(1), vs[i])
			}
		}
		evalCommit := func(id *big.Int) Pt {
			acc := g.Identity()
			pow := big.NewInt(1)
			for k := 0; k <= t; k++ {
				acc = g.Add(acc, GMul(g, pow, vs[k]))
				pow = new(big.Int).Mod(new(big.Int).Mul(pow, id), q)
			}
			return acc
		}
		var ids []*big.Int
		var vals []*big.Int
		for to, sh := range shares {
			rcpt := w.Nodes[to]
			if !PtEq(evalCommit(rcpt.PID.KeyInt()), GMul(g, sh, g.Base())) {
				rc.Fail("share-does-not-verify", "dealer %s: the share sent to %s does not verify against the published commitments", dealer.Name, rcpt.Name)
				return
			}
			for _, o := range w.Nodes {
				if o != rcpt && o != dealer && PtEq(evalCommit(o.PID.KeyInt()), GMul(g, sh, g.Base())) {
					rc.Fail("share-verifies-under-other-id", "dealer %s: the share for %s also verifies under %s's id", dealer.Name, rcpt.Name, o.Name)
					return
				}
			}
			ids = append(ids, rcpt.PID.KeyInt())
			vals = append(vals, sh)
			checked++
		}
		// reconstruction from the shares seen on the wire (n-1 of the dealer's n shares)
		recon := func(sub []int) *big.Int {
			xs := make([]*big.Int, len(sub))
			for i, j := range sub {
				xs[i] = ids[j]
			}
			ls := LagrangeAtZero(xs, q)
			s := big.NewInt(0)
			for i, j := range sub {
				s.Add(s, new(big.Int).Mul(ls[i], vals[j]))
			}
			return s.Mod(s, q)
		}
		if len(ids) >= t+1 {
			for _, sub := range subsets(len(ids), t+1, 20) {
				if !PtEq(GMul(g, recon(sub), g.Base()), vs[0]) {
					rc.Fail("reconstruction", "dealer %s: shares %v do not reconstruct the secret committed to in the first commitment", dealer.Name, sub)
					return
				}
				rc.Res.Probes["reconstructions_t+1"]++
			}
		}
		// the library's own reconstruction over the same wire shares: every subset size from t+1 up to all
		// of them gives the secret, t of them do not
		libCurve := tss.Edwards()
		if pr.Curve == "ec" {
			libCurve = tss.S256()
		}
		// the library's own share check on the same wire data: true under the recipient's id, false under
		// every other party's id, false for the share of another recipient
		libVs := make(vss.Vs, len(vs))
		libOK := true
		for i := range vs {
			p, err := crypto.NewECPoint(libCurve, vs[i].X, vs[i].Y)
			if err != nil {
				libOK = false
				break
			}
			libVs[i] = p
		}
		if libOK {
			for j := range ids {
				own := &vss.Share{Threshold: t, ID: new(big.Int).Set(ids[j]), Share: new(big.Int).Set(vals[j])}
				if !own.Verify(libCurve, t, libVs) {
					rc.Fail("share-does-not-verify", "dealer %s: the library's Share.Verify rejects share %d under its own id", dealer.Name, j)
					return
				}
				// altered share values under the right id: +1, and the additive inverse (whose image is the
				// negated point: same x coordinate on secp256k1, same y on edwards25519)
				for name, alt := range map[string]*big.Int{"share+1": new(big.Int).Add(vals[j], big.NewInt(1)), "q-share": new(big.Int).Mod(new(big.Int).Neg(vals[j]), q)} {
					if alt.Cmp(new(big.Int).Mod(vals[j], q)) == 0 {
						continue
					}
					if (&vss.Share{Threshold: t, ID: new(big.Int).Set(ids[j]), Share: alt}).Verify(libCurve, t, libVs) {
						rc.Fail("altered-share-verifies", "dealer %s: the library's Share.Verify accepts share %d altered to %s", dealer.Name, j, name)
						return
					}
				}
				for k := range ids {
					if k == j {
						continue
					}
					other := &vss.Share{Threshold: t, ID: new(big.Int).Set(ids[k]), Share: new(big.Int).Set(vals[j])}
					if other.Verify(libCurve, t, libVs) {
						rc.Fail("share-verifies-under-other-id", "dealer %s: the library's Share.Verify accepts share %d under the id of share %d", dealer.Name, j, k)
						return
					}
				}
				rc.Res.Probes["library_share_verifications"]++
			}
		}
		libRecon := func(sub []int) (*big.Int, error) {
			shs := make(vss.Shares, len(sub))
			for i, j := range sub {
				shs[i] = &vss.Share{Threshold: t, ID: new(big.Int).Set(ids[j]), Share: new(big.Int).Set(vals[j])}
			}
			return shs.ReConstruct(libCurve)
		}
		for k := t + 1; k <= len(ids); k++ {
			for _, sub := range subsets(len(ids), k, 6) {
				s, err := libRecon(sub)
				if err != nil || s == nil || !PtEq(GMul(g, new(big.Int).Mod(s, q), g.Base()), vs[0]) {
					rc.Fail("reconstruction", "dealer %s: the library reconstructs %v from the %d shares %v (threshold %d, error %v): not the secret committed to in the first commitment", dealer.Name, s, k, sub, t, err)
					return
				}
				rc.Res.Probes[fmt.Sprintf("library_reconstructions_t+%d", k-t)]++
			}
		}
		if t >= 1 && len(ids) >= t {
			for _, sub := range subsets(len(ids), t, 6) {
				if s, err := libRecon(sub); err == nil && s != nil && PtEq(GMul(g, new(big.Int).Mod(s, q), g.Base()), vs[0]) {
					rc.Fail("threshold", "dealer %s: the library reconstructs the secret from only t=%d shares %v", dealer.Name, t, sub)
					return
				}
				rc.Res.Probes["library_non_reconstructions_t"]++
			}
		}
		if t >= 1 && len(ids) >= t {
			for _, sub := range subsets(len(ids), t, 20) {
				if PtEq(GMul(g, recon(sub), g.Base()), vs[0]) {
					rc.Fail("threshold", "dealer %s: only t=%d shares %v reconstruct the secret", dealer.Name, t, sub)
					return
				}
				rc.Res.Probes["non_reconstructions_t"]++
			}
		}
	}
	rc.Res.Probes["wire_shares_verified"] += checked
	rc.Res.Sample = map[string]interface{}{"proto": pr.Proto, "n": pr.N, "t": pr.T, "shares_checked": checked, "strategy": sc.Sched.Strategy}
}

// driveVSSIDs: party-key configurations with an id = 0 mod q or two ids congruent mod q make Start
// fail on every node, both curves, keygen and resharing (new committee ids).
func driveVSSIDs(rc *RunCtx) {
	sc := rc.Sc
	curve := sc.Str("curve", "ed")
	var g Group = Ed
	if curve == "ec" {
		g = Secp
	}
	q := g.Order()
	n, t := sc.Int("n", 3), sc.Int("t", 1)
	ids := idKeys(idRand("bad", n, sc.Run), "small", n, q, 1000) // distinct from the old committee's ids (1, 2)
	switch sc.Str("bad", "q") {
	case "q":
		ids[n-1] = new(big.Int).Set(q)
	case "2q":
		ids[n-1] = new(big.Int).Lsh(q, 1)
	case "k+q":
		ids[n-1] = new(big.Int).Add(ids[0], q)
	case "k+2q":
		ids[n-1] = new(big.Int).Add(ids[0], new(big.Int).Lsh(q, 1))
	}
	w := rc.NewWorld("ids")
	var nodes []*Node
	if sc.Str("proto", "keygen") == "keygen" {
		if curve == "ed" {
			nodes = w.AddEdKeygen(ids, t)
		} else {
			pre, err := ECPreParams()
			if err != nil {
				rc.Fail("harness", "%v", err)
				return
			}
			nodes = w.AddECKeygen(ids, t, pre[:n], ECKeygenOpts{})
		}
	} else {
		// resharing: the bad ids are the new committee's; old members deal to them
		okIDs := idKeys(idRand("key", 2, 0), "small", 2, q, 0)
		if curve == "ed" {
			keys, pids, ok := rc.EdKeygenQuiet("keygen", okIDs, 1)
			if !ok {
				return
			}
			olds, _ := w.AddEdResharing(clonePIDs(pids), keys, 1, ids, t)
			nodes = olds
		} else {
			fx, err := LoadECFixtures()
			if err != nil {
				rc.Fail("harness", "%v", err)
				return
			}
			ks := []*big.Int{fx[0].ShareID, fx[1].ShareID, fx[2].ShareID}
			pids := MakePIDs("o", ks)
			pre, _ := ECPreParams()
			olds, _ := w.AddECResharing(pids, ecKeysFor(pids, fx), 2, ids, t, pre[:n], ECKeygenOpts{})
			nodes = olds
		}
	}
	w.AttachBasicInvariants()
	for _, nd := range nodes {
		ev := w.Start(nd)
		if rc.Failed() {
			if w.Violation != nil && w.Violation.Class == "panic" {
				w.Violation.Key = "panic@" + stripLine(PanicSite(ev.Outcome.Stack)) + "#ids"
			}
			return
		}
		if ev.Err == nil {
			rc.Fail("bad-ids-accepted", "node %s started dealing although the party ids are inadmissible (%s)", nd.Name, sc.Str("bad", ""))
			return
		}
		if len(nd.Emitted) > 0 {
			rc.Fail("bad-ids-accepted", "node %s sent %s although the party ids are inadmissible", nd.Name, nd.Emitted[0].Type)
			return
		}
	}
	rc.Res.Nontrivial = true
	rc.Res.Sample = map[string]interface{}{"curve": curve, "proto": sc.Str("proto", "keygen"), "bad": sc.Str("bad", ""), "start_error": errString(nodes[0].StartErr)}
}

func genC15(tier string, seed uint64, run int) *Scenario {
	r := rand.New(rand.NewPCG(seedFor(seed, "C15", run, "gen"), 1))
	switch run % 4 {
	case 0, 1:
		sc := cellScenario("C15", tier, seed, (run/4)*2+run%4)
		if sc != nil {
			sc.P["must_reject"] = true
			return sc
		}
		fallthrough
	case 2:
		ec := run%16 == 14
		p := map[string]interface{}{"ids": idPatterns[r.IntN(len(idPatterns))], "idpool": r.IntN(20)}
		if ec {
			p["proto"] = "ec-keygen"
			p["n"], p["t"] = 3, 1+r.IntN(2)
			p["preoff"] = r.IntN(5)
		} else {
			p["proto"] = "ed-keygen"
			n, t := nt(r, 5)
			if n == 2 {
				n = 3
			}
			p["n"], p["t"] = n, t
		}
		sc := &Scenario{Check: "C15", Kind: "vss-wire", Seed: seed, Run: run, P: p}
		sc.Sched = GenSched(r, 3, true, false)
		return sc
	default:
		bads := []string{"q", "2q", "k+q", "k+2q"}
		p := map[string]interface{}{"curve": []string{"ed", "ec"}[(run/4)%2], "bad": bads[(run/8)%4], "proto": []string{"keygen", "reshare"}[(run/32)%2], "n": 2 + r.IntN(2), "t": 1}
		return &Scenario{Check: "C15", Kind: "vss-ids", Seed: seed, Run: run, P: p}
	}
}

var _ = eckg.NewLocalPartySaveData
var _ = edkg.NewLocalPartySaveData
