package sim

import (
	"math/big"
)

// C01 refusal clause: a digest not below the curve order is refused before any message is sent.

func init() {
	Drivers["ec-refuse"] = driveECRefuse
}

func driveECRefuse(rc *RunCtx) {
	keys, err := LoadECFixtures()
	if err != nil {
		rc.Fail("harness", "fixtures: %v", err)
		return
	}
	var d *big.Int
	switch rc.Sc.Int("which", 0) {
	case 0:
		d = new(big.Int).Set(Secp.n)
	case 1:
		d = new(big.Int).Add(Secp.n, big.NewInt(1))
	default:
		d = new(big.Int).Sub(new(big.Int).Lsh(big.NewInt(1), 256), big.NewInt(1))
	}
	ks := make([]*big.Int, 3)
	for i := 0; i < 3; i++ {
		ks[i] = keys[i].ShareID
	}
	pids := MakePIDs("s", ks)
	w := rc.NewWorld("refuse")
	nodes := w.AddECSigning(pids, ecKeysFor(pids, keys), 2, d, 0, nil)
	w.AttachBasicInvariants()
	for _, n := range nodes {
		ev := w.Start(n)
		if rc.Failed() {
			return
		}
		if ev.Err == nil {
			rc.Fail("digest-not-refused", "Start accepted a digest >= q (%x)", d)
			return
		}
		if len(n.Emitted) > 0 || len(w.Inflight) > 0 {
			rc.Fail("message-before-refusal", "node %s sent %d message(s) although Start refused the digest", n.Name, len(n.Emitted))
			return
		}
		if len(n.Results) > 0 {
			rc.Fail("result-after-refusal", "node %s produced a result although Start refused the digest", n.Name)
			return
		}
	}
	// nothing may ever appear later either
	for _, n := range nodes {
		w.drain(n, nil)
		if len(n.Emitted) > 0 || len(n.Results) > 0 {
			rc.Fail("message-before-refusal", "node %s emitted after a refused Start", n.Name)
			return
		}
	}
	rc.Res.Nontrivial = true
	rc.Res.Sample = map[string]interface{}{"refused_digest": d.Text(16), "start_error": errString(nodes[0].StartErr)}
}
