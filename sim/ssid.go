package sim

import (
	"math/big"

	"github.com/bnb-chain/tss-lib/v2/common"
	eckg "github.com/bnb-chain/tss-lib/v2/ecdsa/keygen"
	edkg "github.com/bnb-chain/tss-lib/v2/eddsa/keygen"
	"github.com/bnb-chain/tss-lib/v2/tss"
)

// Session ids are SHA-512/256 digests of public key material turned into bytes with big.Int.Bytes():
// about one (key set, participant set) in 256 has a session id of 31 bytes or fewer. The vendored
// ECDSA key never does (26 signer subsets, 16 old committees: all 32 bytes), so without help that
// regime is entered only by the few runs on fresh keys. The helpers below LOOK for a key set with a
// short session id. They evaluate the digest the way the library does; that copy is a search
// heuristic, not an oracle: if it were wrong the search would return ordinary key sets and nothing
// would be reported.

func shortDigest(vals []*big.Int) bool {
	return len(common.SHA512_256i(vals...).Bytes()) < 32
}

// ecSignSSIDShort tells whether the ECDSA signing session id of these signers on this key set is short.
func ecSignSSIDShort(spids tss.SortedPartyIDs, keys []eckg.LocalPartySaveData) bool {
	ec := tss.S256().Params()
	l := []*big.Int{ec.P, ec.N, ec.B, ec.Gx, ec.Gy}
	l = append(l, spids.Keys()...)
	k0 := keys[0]
	var xs, nt, h1, h2 []*big.Int
	for _, p := range spids {
		for j, kj := range k0.Ks {
			if kj.Cmp(p.KeyInt()) == 0 {
				xs = append(xs, k0.BigXj[j].X(), k0.BigXj[j].Y())
				nt, h1, h2 = append(nt, k0.NTildej[j]), append(h1, k0.H1j[j]), append(h2, k0.H2j[j])
			}
		}
	}
	l = append(l, xs...)
	l = append(l, nt...)
	l = append(l, h1...)
	l = append(l, h2...)
	l = append(l, big.NewInt(1), big.NewInt(0))
	return shortDigest(l)
}

// edSignSSIDShort: the same for EdDSA signing.
func edSignSSIDShort(spids tss.SortedPartyIDs, keys []edkg.LocalPartySaveData) bool {
	ec := tss.Edwards().Params()
	l := []*big.Int{ec.P, ec.N, ec.Gx, ec.Gy}
	l = append(l, spids.Keys()...)
	k0 := keys[0]
	for _, p := range spids {
		for j, kj := range k0.Ks {
			if kj.Cmp(p.KeyInt()) == 0 {
				l = append(l, k0.BigXj[j].X(), k0.BigXj[j].Y())
			}
		}
	}
	l = append(l, big.NewInt(1), big.NewInt(0))
	return shortDigest(l)
}

// rerandomiseRingPedersenAt: deep copies of the key set with party j's generators replaced by
// (h1^e, h2^e) mod NTilde_j in every view and in the owner's own parameters.
func rerandomiseRingPedersenAt(keys []eckg.LocalPartySaveData, j int, e *big.Int) []eckg.LocalPartySaveData {
	out := make([]eckg.LocalPartySaveData, len(keys))
	for i := range keys {
		out[i] = cloneECKey(keys[i])
	}
	nt := out[0].NTildej[j]
	h1 := new(big.Int).Exp(out[0].H1j[j], e, nt)
	h2 := new(big.Int).Exp(out[0].H2j[j], e, nt)
	for i := range out {
		out[i].H1j[j], out[i].H2j[j] = new(big.Int).Set(h1), new(big.Int).Set(h2)
		if idx, err := out[i].OriginalIndex(); err == nil && idx == j {
			out[i].H1i, out[i].H2i = new(big.Int).Set(h1), new(big.Int).Set(h2)
		}
	}
	return out
}

// ecKeysWithShortSignSSID re-randomises the generators of the first signer until the signing session id
// of spids is short (at most `tries` candidates; ok=false if none was found).
func ecKeysWithShortSignSSID(spids tss.SortedPartyIDs, keys []eckg.LocalPartySaveData, start uint64, tries int) ([]eckg.LocalPartySaveData, bool) {
	j := -1
	for idx, kj := range keys[0].Ks {
		if kj.Cmp(spids[0].KeyInt()) == 0 {
			j = idx
		}
	}
	if j < 0 {
		return keys, false
	}
	base := keys[0]
	nt := base.NTildej[j]
	for t := 0; t < tries; t++ {
		Tick()
		e := new(big.Int).SetUint64((start+uint64(t))*2 + 3)
		// evaluate on a light copy first: only the two generators of party j change
		probe := base
		probe.H1j = append([]*big.Int{}, base.H1j...)
		probe.H2j = append([]*big.Int{}, base.H2j...)
		probe.H1j[j] = new(big.Int).Exp(base.H1j[j], e, nt)
		probe.H2j[j] = new(big.Int).Exp(base.H2j[j], e, nt)
		if ecSignSSIDShort(spids, []eckg.LocalPartySaveData{probe}) {
			return rerandomiseRingPedersenAt(keys, j, e), true
		}
	}
	return keys, false
}
