package sim

import (
	"fmt"
	"sort"
	"strings"
)

// Reference model of rounds, routing and requirements (DESIGN.md appendix A). Written from the
// protocol description and /repo/protob/*.proto comments, not from the round code. It knows
// nothing about cryptography.

type MsgRow struct {
	Type   string
	Round  int
	Bcast  bool
	Secret bool   // exactly one recipient, never flagged broadcast
	Who    string // role of the sender: "all", "old", "new"
	To     string // "others" (same committee minus sender), "old", "new", "both"
	ToOld  bool   // expected is_to_old_committee flag
	ToBoth bool   // expected is_to_old_and_new_committees flag
}

type Need struct {
	Type string
	From string // "others" | "old" | "new"
}

type ProtoModel struct {
	Name  string
	Rows  []MsgRow
	Final int
	// Needs[round][role]
	Needs map[int]map[string][]Need
}

func (m *ProtoModel) Row(typ string) *MsgRow {
	for i := range m.Rows {
		if m.Rows[i].Type == typ {
			return &m.Rows[i]
		}
	}
	return nil
}

var Models = map[string]*ProtoModel{}

func init() {
	bc := func(t string, r int) MsgRow { return MsgRow{Type: t, Round: r, Bcast: true, Who: "all", To: "others"} }
	p2p := func(t string, r int) MsgRow {
		return MsgRow{Type: t, Round: r, Bcast: false, Secret: true, Who: "all", To: "others"}
	}
	all := func(ts ...string) map[string][]Need {
		var ns []Need
		for _, t := range ts {
			ns = append(ns, Need{t, "others"})
		}
		return map[string][]Need{"all": ns}
	}
	{
		p := "ecdsa.keygen."
		Models["ecdsa-keygen"] = &ProtoModel{Name: "ecdsa-keygen", Final: 4,
			Rows: []MsgRow{bc(p+"KGRound1Message", 1), p2p(p+"KGRound2Message1", 2), bc(p+"KGRound2Message2", 2), bc(p+"KGRound3Message", 3)},
			Needs: map[int]map[string][]Need{1: all(p + "KGRound1Message"), 2: all(p+"KGRound2Message1", p+"KGRound2Message2"), 3: all(p + "KGRound3Message")}}
	}
	{
		p := "eddsa.keygen."
		Models["eddsa-keygen"] = &ProtoModel{Name: "eddsa-keygen", Final: 3,
			Rows: []MsgRow{bc(p+"KGRound1Message", 1), p2p(p+"KGRound2Message1", 2), bc(p+"KGRound2Message2", 2)},
			Needs: map[int]map[string][]Need{1: all(p + "KGRound1Message"), 2: all(p+"KGRound2Message1", p+"KGRound2Message2")}}
	}
	{
		p := "ecdsa.signing."
		m := &ProtoModel{Name: "ecdsa-signing", Final: 10,
			Rows:  []MsgRow{p2p(p+"SignRound1Message1", 1), bc(p+"SignRound1Message2", 1), p2p(p+"SignRound2Message", 2)},
			Needs: map[int]map[string][]Need{1: all(p+"SignRound1Message1", p+"SignRound1Message2"), 2: all(p + "SignRound2Message")}}
		for r := 3; r <= 9; r++ {
			t := fmt.Sprintf("%sSignRound%dMessage", p, r)
			m.Rows = append(m.Rows, bc(t, r))
			m.Needs[r] = all(t)
		}
		Models["ecdsa-signing"] = m
	}
	{
		p := "eddsa.signing."
		Models["eddsa-signing"] = &ProtoModel{Name: "eddsa-signing", Final: 4,
			Rows: []MsgRow{bc(p+"SignRound1Message", 1), bc(p+"SignRound2Message", 2), bc(p+"SignRound3Message", 3)},
			Needs: map[int]map[string][]Need{1: all(p + "SignRound1Message"), 2: all(p + "SignRound2Message"), 3: all(p + "SignRound3Message")}}
	}
	{
		p := "ecdsa.resharing."
		Models["ecdsa-resharing"] = &ProtoModel{Name: "ecdsa-resharing", Final: 5,
			Rows: []MsgRow{
				{Type: p + "DGRound1Message", Round: 1, Bcast: true, Who: "old", To: "new"},
				{Type: p + "DGRound2Message2", Round: 2, Bcast: true, Who: "new", To: "old", ToOld: true},
				{Type: p + "DGRound2Message1", Round: 2, Bcast: true, Who: "new", To: "new"},
				{Type: p + "DGRound3Message1", Round: 3, Bcast: false, Secret: true, Who: "old", To: "new"},
				{Type: p + "DGRound3Message2", Round: 3, Bcast: true, Who: "old", To: "new"},
				{Type: p + "DGRound4Message1", Round: 4, Bcast: false, Secret: true, Who: "new", To: "new"},
				{Type: p + "DGRound4Message2", Round: 4, Bcast: true, Who: "new", To: "both", ToBoth: true},
			},
			Needs: map[int]map[string][]Need{
				1: {"new": {{p + "DGRound1Message", "old"}}},
				2: {"old": {{p + "DGRound2Message2", "new"}}, "new": {{p + "DGRound2Message1", "new"}}},
				3: {"new": {{p + "DGRound3Message1", "old"}, {p + "DGRound3Message2", "old"}}},
				4: {"new": {{p + "DGRound4Message1", "new"}, {p + "DGRound4Message2", "new"}}, "old": {{p + "DGRound4Message2", "new"}}},
			}}
	}
	{
		p := "eddsa.resharing."
		Models["eddsa-resharing"] = &ProtoModel{Name: "eddsa-resharing", Final: 5,
			Rows: []MsgRow{
				{Type: p + "DGRound1Message", Round: 1, Bcast: true, Who: "old", To: "new"},
				{Type: p + "DGRound2Message", Round: 2, Bcast: true, Who: "new", To: "old", ToOld: true},
				{Type: p + "DGRound3Message1", Round: 3, Bcast: false, Secret: true, Who: "old", To: "new"},
				{Type: p + "DGRound3Message2", Round: 3, Bcast: true, Who: "old", To: "new"},
				{Type: p + "DGRound4Message", Round: 4, Bcast: true, Who: "new", To: "both", ToBoth: true},
			},
			Needs: map[int]map[string][]Need{
				1: {"new": {{p + "DGRound1Message", "old"}}},
				2: {"old": {{p + "DGRound2Message", "new"}}},
				3: {"new": {{p + "DGRound3Message1", "old"}, {p + "DGRound3Message2", "old"}}},
				4: {"new": {{p + "DGRound4Message", "new"}}, "old": {{p + "DGRound4Message", "new"}}},
			}}
	}
}

var typeRound = map[string]int{}

func roundOfType(t string) int {
	if len(typeRound) == 0 {
		for _, m := range Models {
			for _, r := range m.Rows {
				typeRound[r.Type] = r.Round
			}
		}
	}
	return typeRound[t]
}

func role(n *Node) string {
	if n.Committee == "" {
		return "all"
	}
	return n.Committee
}

// senders returns the nodes a Need refers to, from the point of view of node n.
func (w *World) needSenders(n *Node, nd Need) []*Node {
	var out []*Node
	for _, o := range w.Nodes {
		if o == n {
			continue
		}
		switch nd.From {
		case "others":
			if o.Committee == n.Committee {
				out = append(out, o)
			}
		default:
			if o.Committee == nd.From {
				out = append(out, o)
			}
		}
	}
	return out
}

// ModelTracker follows one world against a ProtoModel.
type ModelTracker struct {
	M *ProtoModel
	W *World
	// delivered[node][sender][type]: delivered on the channel kind the type demands
	delivered []map[string]bool
	// emitted[node][type] -> recipients so far
	emitted []map[string][]int
	Lag     int // steps at which a party was behind the model (probe only)
	Checks  int
}

func NewModelTracker(w *World, m *ProtoModel) *ModelTracker {
	t := &ModelTracker{M: m, W: w}
	for range w.Nodes {
		t.delivered = append(t.delivered, map[string]bool{})
		t.emitted = append(t.emitted, map[string][]int{})
	}
	return t
}

func dkey(sender int, typ string) string { return fmt.Sprintf("%d|%s", sender, typ) }

// ModelRound: the highest round the node may be in given what was delivered to it.
func (t *ModelTracker) ModelRound(n *Node) int {
	if !n.Started {
		return 0
	}
	r := 1
	for r < t.M.Final {
		if !t.needsMet(n, r) {
			break
		}
		r++
	}
	return r
}

func (t *ModelTracker) needsMet(n *Node, r int) bool {
	for _, nd := range t.M.Needs[r][role(n)] {
		for _, s := range t.W.needSenders(n, nd) {
			if !t.delivered[n.Idx][dkey(s.Idx, nd.Type)] {
				return false
			}
		}
	}
	return true
}

// Awaited: peers from whom a message required by round r has not been delivered to n.
func (t *ModelTracker) Awaited(n *Node, r int) []string {
	set := map[string]bool{}
	for _, nd := range t.M.Needs[r][role(n)] {
		for _, s := range t.W.needSenders(n, nd) {
			if !t.delivered[n.Idx][dkey(s.Idx, nd.Type)] {
				set[s.Name] = true
			}
		}
	}
	out := []string{}
	for k := range set {
		out = append(out, k)
	}
	sort.Strings(out)
	return out
}

func sameInts(a, b []int) bool {
	if len(a) != len(b) {
		return false
	}
	for i := range a {
		if a[i] != b[i] {
			return false
		}
	}
	return true
}

// Check is the inline invariant run after every step (C08 a, b).
// checkWaiting=false skips the WaitingFor comparison (used in Byzantine runs after an error).
func (t *ModelTracker) Check(ev *StepEvent, checkWaiting bool) *Violation {
	w := t.W
	n := ev.Node
	t.Checks++
	// record the delivery
	if ev.Kind == "deliver" && ev.Env != nil && !ev.Env.Junk {
		row := t.M.Row(ev.Env.Type)
		flag := ev.Env.Bcast
		if ev.Env.Flipped {
			flag = !flag
		}
		if row != nil && flag == row.Bcast {
			t.delivered[n.Idx][dkey(ev.Env.From, ev.Env.Type)] = true
		}
	}
	mr := t.ModelRound(n)
	// (a) emissions
	for _, em := range ev.Emitted {
		row := t.M.Row(em.Type)
		if row == nil {
			return w.fail("model-emission", "node %s emitted %s which the protocol table does not contain", n.Name, em.Type)
		}
		if row.Who != "all" && row.Who != role(n) {
			return w.fail("model-emission", "node %s (role %s) emitted %s which only %s members send", n.Name, role(n), em.Type, row.Who)
		}
		if em.Bcast != row.Bcast {
			return w.fail("model-routing", "node %s emitted %s flagged broadcast=%v, protocol says %v", n.Name, em.Type, em.Bcast, row.Bcast)
		}
		if em.ToOld != row.ToOld || em.ToBoth != row.ToBoth {
			return w.fail("model-routing", "node %s emitted %s with committee flags old=%v both=%v, protocol says old=%v both=%v", n.Name, em.Type, em.ToOld, em.ToBoth, row.ToOld, row.ToBoth)
		}
		if row.Round > mr {
			return w.fail("model-premature", "node %s emitted %s (round %d) but the deliveries so far only allow round %d", n.Name, em.Type, row.Round, mr)
		}
		// expected recipient universe
		var exp []int
		for _, o := range w.Nodes {
			if o == n {
				continue
			}
			switch row.To {
			case "others":
				if o.Committee == n.Committee {
					exp = append(exp, o.Idx)
				}
			case "both":
				exp = append(exp, o.Idx)
			default:
				if o.Committee == row.To {
					exp = append(exp, o.Idx)
				}
			}
		}
		prev := t.emitted[n.Idx][em.Type]
		if row.Secret {
			if len(em.To) != 1 {
				return w.fail("model-routing", "node %s emitted secret-bearing %s to %d recipients %v", n.Name, em.Type, len(em.To), em.To)
			}
			okr := false
			for _, x := range exp {
				if x == em.To[0] {
					okr = true
				}
			}
			if !okr {
				return w.fail("model-routing", "node %s emitted %s to node %d which is not a prescribed recipient %v", n.Name, em.Type, em.To[0], exp)
			}
			for _, x := range prev {
				if x == em.To[0] {
					return w.fail("model-emission", "node %s emitted %s to node %d twice", n.Name, em.Type, x)
				}
			}
			t.emitted[n.Idx][em.Type] = append(prev, em.To[0])
		} else {
			if len(prev) > 0 {
				return w.fail("model-emission", "node %s emitted %s twice", n.Name, em.Type)
			}
			if !sameInts(em.To, exp) {
				return w.fail("model-routing", "node %s emitted %s to %v, protocol says %v", n.Name, em.Type, em.To, exp)
			}
			t.emitted[n.Idx][em.Type] = append([]int{-1}, em.To...)
		}
	}
	// (b) WaitingFor
	// the property speaks about the set reported after every update, i.e. after a delivery
	if checkWaiting && ev.Kind == "deliver" && ev.Outcome.Panic == nil && !ev.Outcome.Deadlock {
		var want []string
		switch {
		case !n.Started:
			want = []string{}
		case len(n.Results) > 0 || ev.RoundStr == "done":
			want = []string{}
		default:
			var pr int
			if _, err := fmt.Sscanf(ev.RoundStr, "round: %d", &pr); err != nil {
				return w.fail("model-waiting", "node %s: cannot parse round from %q", n.Name, ev.RoundStr)
			}
			if pr > mr {
				return w.fail("model-premature", "node %s reports round %d but the deliveries so far only allow round %d", n.Name, pr, mr)
			}
			if pr < mr {
				t.Lag++
			}
			want = t.Awaited(n, pr)
		}
		if strings.Join(want, ",") != strings.Join(ev.Waiting, ",") {
			return w.fail("model-waiting", "node %s (%s): WaitingFor reports %v, deliveries so far say %v", n.Name, ev.RoundStr, ev.Waiting, want)
		}
	}
	return nil
}

// Complete reports what the model says must have been emitted by the end of a fault-free
// drained run, and compares.
func (t *ModelTracker) Complete() *Violation {
	w := t.W
	for _, n := range w.Nodes {
		for _, row := range t.M.Rows {
			if row.Who != "all" && row.Who != role(n) {
				continue
			}
			got := t.emitted[n.Idx][row.Type]
			var exp []int
			for _, o := range w.Nodes {
				if o == n {
					continue
				}
				switch row.To {
				case "others":
					if o.Committee == n.Committee {
						exp = append(exp, o.Idx)
					}
				case "both":
					exp = append(exp, o.Idx)
				default:
					if o.Committee == row.To {
						exp = append(exp, o.Idx)
					}
				}
			}
			if row.Secret {
				g := append([]int{}, got...)
				sort.Ints(g)
				if !sameInts(g, exp) {
					return w.fail("model-incomplete", "node %s sent %s to %v by the end of a drained run, protocol says %v", n.Name, row.Type, g, exp)
				}
			} else if len(got) == 0 {
				return w.fail("model-incomplete", "node %s never sent %s although the network drained", n.Name, row.Type)
			}
		}
	}
	return nil
}
