package sim

import (
	"bytes"
	"fmt"
	"math/big"
	"strings"

	"google.golang.org/protobuf/proto"
	"google.golang.org/protobuf/reflect/protoreflect"
	"google.golang.org/protobuf/reflect/protoregistry"
	"google.golang.org/protobuf/types/known/anypb"
)

// TamperSpec: one Byzantine alteration of one field of one message type sent by node B.
type TamperSpec struct {
	B     int    `json:"b"`     // node index of the deviating party
	Type  string `json:"type"`  // short message type
	Field string `json:"field"` // proto field name ("" = whole message)
	Index int    `json:"index"` // element of a repeated field, -1 for singular
	Kind  string `json:"kind"`
	Rcpt  int    `json:"rcpt"` // only the copy sent to this node (p2p types); -1 = every copy
}

func (t TamperSpec) ID(proto string) string {
	return fmt.Sprintf("%s/B=%d/%s.%s[%d]/%s/r=%d", proto, t.B, strings.TrimPrefix(t.Type, "binance.tsslib."), t.Field, t.Index, t.Kind, t.Rcpt)
}

// decodeAny parses wire bytes (a marshalled Any) into the concrete message.
func decodeAny(wire []byte) (proto.Message, error) {
	a := new(anypb.Any)
	if err := proto.Unmarshal(wire, a); err != nil {
		return nil, err
	}
	return a.UnmarshalNew()
}

func encodeAny(m proto.Message) ([]byte, error) {
	a, err := anypb.New(m)
	if err != nil {
		return nil, err
	}
	return proto.Marshal(a)
}

// FieldInfo describes one tamperable field of a message type.
type FieldInfo struct {
	Name string
	List bool
}

// FieldsOf enumerates bytes / repeated-bytes fields of a message type by protobuf reflection.
func FieldsOf(shortTyp string) []FieldInfo {
	mt, err := protoregistry.GlobalTypes.FindMessageByName(protoreflect.FullName("binance.tsslib." + shortTyp))
	if err != nil {
		return nil
	}
	var out []FieldInfo
	fs := mt.Descriptor().Fields()
	for i := 0; i < fs.Len(); i++ {
		fd := fs.Get(i)
		if fd.Kind() != protoreflect.BytesKind {
			continue
		}
		out = append(out, FieldInfo{Name: string(fd.Name()), List: fd.IsList()})
	}
	return out
}

// getField returns the bytes of field/index of a decoded message.
func getField(m proto.Message, field string, index int) ([]byte, bool) {
	r := m.ProtoReflect()
	fd := r.Descriptor().Fields().ByName(protoreflect.Name(field))
	if fd == nil {
		return nil, false
	}
	if fd.IsList() {
		l := r.Get(fd).List()
		if index < 0 || index >= l.Len() {
			return nil, false
		}
		return l.Get(index).Bytes(), true
	}
	return r.Get(fd).Bytes(), true
}

func listLenOf(m proto.Message, field string) int {
	r := m.ProtoReflect()
	fd := r.Descriptor().Fields().ByName(protoreflect.Name(field))
	if fd == nil || !fd.IsList() {
		return -1
	}
	return r.Get(fd).List().Len()
}

// TamperCtx carries what value-dependent kinds need.
type TamperCtx struct {
	Q      *big.Int // group order of the run's curve
	P      *big.Int // field prime
	Other  proto.Message // same message type from another party (for "other")
	Rand   func(n int) []byte
	ModN   *big.Int // a modulus found in the same message (paillier_n / n_tilde) or the sender's
	EdCurve bool
}

var torsionY = []string{ // y coordinates of the eight torsion points of edwards25519 (x derived)
	"1", "7fffffffffffffffffffffffffffffffffffffffffffffffffffffffffffffec", "0", "0",
	"7a03ac9277fdc74ec6cc392cfa53202a0f67100d760b3cba4fd84d3d706a17c7", "7a03ac9277fdc74ec6cc392cfa53202a0f67100d760b3cba4fd84d3d706a17c7",
	"05fc536d880238b13933c6d305acdfd5f098eff289f4c345b027b2c28f95e826", "05fc536d880238b13933c6d305acdfd5f098eff289f4c345b027b2c28f95e826",
}

// mutateValue applies a scalar mutation kind to v; ok=false when the kind does not apply.
func mutateValue(v []byte, kind string, c *TamperCtx) ([]byte, bool) {
	x := new(big.Int).SetBytes(v)
	setInt := func(z *big.Int) ([]byte, bool) {
		if z.Sign() < 0 {
			return nil, false
		}
		if z.Sign() == 0 {
			return []byte{0}, true
		}
		return z.Bytes(), true
	}
	switch kind {
	case "+1":
		return setInt(new(big.Int).Add(x, big.NewInt(1)))
	case "-1":
		return setInt(new(big.Int).Sub(x, big.NewInt(1)))
	case "rand":
		n := len(v)
		if n == 0 {
			n = 32
		}
		b := c.Rand(n)
		b[0] |= 1 // keep the length (no leading zero)
		return b, true
	case "zero":
		return []byte{0}, true
	case "empty":
		return []byte{}, true
	case "one":
		return []byte{1}, true
	case "q-1":
		return setInt(new(big.Int).Sub(c.Q, big.NewInt(1)))
	case "q":
		return setInt(c.Q)
	case "q+1":
		return setInt(new(big.Int).Add(c.Q, big.NewInt(1)))
	case "2q":
		return setInt(new(big.Int).Lsh(c.Q, 1))
	case "+q": // equivalent for scalars mod q — used only by the crash oracle
		return setInt(new(big.Int).Add(x, c.Q))
	case "+N":
		if c.ModN == nil {
			return nil, false
		}
		return setInt(new(big.Int).Add(x, c.ModN))
	case "p":
		return setInt(c.P)
	case "p+x": // coordinate >= p congruent to the original
		return setInt(new(big.Int).Add(x, c.P))
	case "N-1", "N", "N+1", "N2", "N2+1", "2N":
		if c.ModN == nil {
			return nil, false
		}
		switch kind {
		case "N-1":
			return setInt(new(big.Int).Sub(c.ModN, big.NewInt(1)))
		case "N":
			return setInt(c.ModN)
		case "N+1":
			return setInt(new(big.Int).Add(c.ModN, big.NewInt(1)))
		case "2N":
			return setInt(new(big.Int).Lsh(c.ModN, 1))
		case "N2":
			return setInt(new(big.Int).Mul(c.ModN, c.ModN))
		default:
			return setInt(new(big.Int).Add(new(big.Int).Mul(c.ModN, c.ModN), big.NewInt(1)))
		}
	case "2^256":
		return setInt(new(big.Int).Lsh(big.NewInt(1), 256))
	case "2^2048":
		return setInt(new(big.Int).Lsh(big.NewInt(1), 2048))
	case "2^4096":
		return setInt(new(big.Int).Lsh(big.NewInt(1), 4096))
	case "2^63":
		return setInt(new(big.Int).Lsh(big.NewInt(1), 63))
	case "2^64-1":
		return setInt(new(big.Int).Sub(new(big.Int).Lsh(big.NewInt(1), 64), big.NewInt(1)))
	case "huge":
		return bytes.Repeat([]byte{0xff}, 4096), true
	case "flip-low":
		if len(v) == 0 {
			return []byte{1}, true
		}
		o := append([]byte{}, v...)
		o[len(o)-1] ^= 1
		return o, true
	case "flip-high":
		if len(v) == 0 {
			return nil, false
		}
		o := append([]byte{}, v...)
		o[0] ^= 0x80
		return o, true
	case "lead-zero": // same integer, non-minimal encoding
		return append([]byte{0}, v...), true
	case "neg": // q - x : negation of a scalar
		return setInt(new(big.Int).Mod(new(big.Int).Neg(x), c.Q))
	case "neg-p": // p - x : the other coordinate value of the negated point
		if c.P == nil || x.Sign() == 0 || x.Cmp(c.P) >= 0 {
			return nil, false
		}
		return setInt(new(big.Int).Sub(c.P, x))
	}
	return nil, false
}

// ApplyTamper rewrites the wire bytes of one emitted message according to spec. It returns the
// new wire bytes and whether anything changed.
func ApplyTamper(wire []byte, spec *TamperSpec, c *TamperCtx) ([]byte, bool, error) {
	m, err := decodeAny(wire)
	if err != nil {
		return nil, false, err
	}
	r := m.ProtoReflect()
	fd := r.Descriptor().Fields().ByName(protoreflect.Name(spec.Field))
	if fd == nil {
		return nil, false, fmt.Errorf("no field %s in %s", spec.Field, spec.Type)
	}
	// a point carried in two scalar fields (<name>_x, <name>_y) replaced by another valid point: its double
	if spec.Kind == "pt2-double" {
		if !strings.HasSuffix(spec.Field, "_x") || fd.IsList() {
			return wire, false, nil
		}
		fy := r.Descriptor().Fields().ByName(protoreflect.Name(strings.TrimSuffix(spec.Field, "_x") + "_y"))
		if fy == nil || fy.IsList() {
			return wire, false, nil
		}
		var g Group = Secp
		if c.EdCurve {
			g = Ed
		}
		P := Pt{X: new(big.Int).SetBytes(r.Get(fd).Bytes()), Y: new(big.Int).SetBytes(r.Get(fy).Bytes())}
		D := g.Add(P, P)
		if D.X == nil || D.Y == nil || PtEq(D, P) {
			return wire, false, nil
		}
		r.Set(fd, protoreflect.ValueOfBytes(D.X.Bytes()))
		r.Set(fy, protoreflect.ValueOfBytes(D.Y.Bytes()))
		nw, err := encodeAny(m)
		return nw, err == nil, err
	}
	// modulus context: a Paillier / ring-Pedersen modulus carried in the same message
	if c.ModN == nil {
		for _, nm := range []string{"paillier_n", "n_tilde"} {
			if f2 := r.Descriptor().Fields().ByName(protoreflect.Name(nm)); f2 != nil && !f2.IsList() {
				c.ModN = new(big.Int).SetBytes(r.Get(f2).Bytes())
				break
			}
		}
	}
	if fd.IsList() {
		l := r.Mutable(fd).List()
		n := l.Len()
		switch spec.Kind {
		case "remove":
			if n == 0 {
				return wire, false, nil
			}
			idx := spec.Index
			if idx < 0 || idx >= n {
				idx = n - 1
			}
			var keep [][]byte
			for i := 0; i < n; i++ {
				if i != idx {
					keep = append(keep, l.Get(i).Bytes())
				}
			}
			l.Truncate(0)
			for _, k := range keep {
				l.Append(protoreflect.ValueOfBytes(k))
			}
		case "append":
			v := []byte{1}
			if n > 0 {
				v = l.Get(n - 1).Bytes()
			}
			l.Append(protoreflect.ValueOfBytes(append([]byte{}, v...)))
		case "clear":
			if n == 0 {
				return wire, false, nil
			}
			l.Truncate(0)
		case "pt-remove": // one whole point (two consecutive elements) less
			i := spec.Index
			if i < 0 || i+1 >= n {
				return wire, false, nil
			}
			var keep [][]byte
			for k := 0; k < n; k++ {
				if k != i && k != i+1 {
					keep = append(keep, l.Get(k).Bytes())
				}
			}
			l.Truncate(0)
			for _, k := range keep {
				l.Append(protoreflect.ValueOfBytes(k))
			}
		case "pt-dup": // one whole point more (a copy of the last one)
			if n < 2 {
				return wire, false, nil
			}
			a, b := l.Get(n-2).Bytes(), l.Get(n-1).Bytes()
			l.Append(protoreflect.ValueOfBytes(append([]byte{}, a...)))
			l.Append(protoreflect.ValueOfBytes(append([]byte{}, b...)))
		case "truncate1":
			if n == 0 {
				return wire, false, nil
			}
			l.Truncate(n - 1)
		case "swap":
			i := spec.Index
			if i < 0 || i+1 >= n {
				return wire, false, nil
			}
			a, b := l.Get(i).Bytes(), l.Get(i+1).Bytes()
			if bytes.Equal(a, b) {
				return wire, false, nil
			}
			l.Set(i, protoreflect.ValueOfBytes(append([]byte{}, b...)))
			l.Set(i+1, protoreflect.ValueOfBytes(append([]byte{}, a...)))
		case "other":
			if c.Other == nil || spec.Index < 0 || spec.Index >= n {
				return wire, false, nil
			}
			ov, ok := getField(c.Other, spec.Field, spec.Index)
			if !ok || bytes.Equal(ov, l.Get(spec.Index).Bytes()) {
				return wire, false, nil
			}
			l.Set(spec.Index, protoreflect.ValueOfBytes(append([]byte{}, ov...)))
		case "pt-identity", "pt-gen-other", "pt-neg", "pt-torsion1", "pt-torsion2", "pt-torsion4", "pt-torsion7", "pt-add-torsion1", "pt-add-torsion4", "pt-swapxy", "pt-x-plus-p":
			// Index is the x coordinate of a point stored as two consecutive elements
			i := spec.Index
			if i < 0 || i+1 >= n {
				return wire, false, nil
			}
			x := new(big.Int).SetBytes(l.Get(i).Bytes())
			y := new(big.Int).SetBytes(l.Get(i + 1).Bytes())
			var nx, ny *big.Int
			switch {
			case spec.Kind == "pt-identity":
				nx, ny = big.NewInt(0), big.NewInt(0)
				if c.EdCurve {
					ny = big.NewInt(1)
				}
			case spec.Kind == "pt-gen-other":
				if c.EdCurve {
					nx, ny = Secp.gx, Secp.gy
				} else {
					nx, ny = Ed.gx, Ed.gy
				}
			case spec.Kind == "pt-neg":
				if c.EdCurve {
					nx, ny = new(big.Int).Sub(c.P, x), y
				} else {
					nx, ny = x, new(big.Int).Sub(c.P, y)
				}
			case spec.Kind == "pt-swapxy":
				nx, ny = y, x
			case spec.Kind == "pt-x-plus-p":
				nx, ny = new(big.Int).Add(x, c.P), y
			case strings.HasPrefix(spec.Kind, "pt-torsion"):
				if !c.EdCurve {
					return wire, false, nil
				}
				var k int
				fmt.Sscanf(spec.Kind, "pt-torsion%d", &k)
				t := EdTorsion()[k%8]
				nx, ny = t.X, t.Y
			case strings.HasPrefix(spec.Kind, "pt-add-torsion"):
				if !c.EdCurve {
					return wire, false, nil
				}
				var k int
				fmt.Sscanf(spec.Kind, "pt-add-torsion%d", &k)
				s := Ed.Add(Pt{X: x, Y: y}, EdTorsion()[k%8])
				nx, ny = s.X, s.Y
			}
			enc := func(v *big.Int) []byte {
				if v.Sign() == 0 {
					return []byte{0}
				}
				return v.Bytes()
			}
			l.Set(i, protoreflect.ValueOfBytes(enc(nx)))
			l.Set(i+1, protoreflect.ValueOfBytes(enc(ny)))
		case "other-all": // the whole list of the other party
			if c.Other == nil {
				return wire, false, nil
			}
			ol := c.Other.ProtoReflect().Get(fd).List()
			l.Truncate(0)
			for i := 0; i < ol.Len(); i++ {
				l.Append(protoreflect.ValueOfBytes(append([]byte{}, ol.Get(i).Bytes()...)))
			}
		default:
			if spec.Index < 0 || spec.Index >= n {
				return wire, false, nil
			}
			nv, ok := mutateValue(l.Get(spec.Index).Bytes(), spec.Kind, c)
			if !ok || bytes.Equal(nv, l.Get(spec.Index).Bytes()) {
				return wire, false, nil
			}
			l.Set(spec.Index, protoreflect.ValueOfBytes(nv))
		}
	} else {
		cur := r.Get(fd).Bytes()
		var nv []byte
		switch spec.Kind {
		case "other":
			if c.Other == nil {
				return wire, false, nil
			}
			ov, ok := getField(c.Other, spec.Field, -1)
			if !ok {
				return wire, false, nil
			}
			nv = append([]byte{}, ov...)
		default:
			var ok bool
			nv, ok = mutateValue(cur, spec.Kind, c)
			if !ok {
				return wire, false, nil
			}
		}
		if bytes.Equal(nv, cur) {
			return wire, false, nil
		}
		r.Set(fd, protoreflect.ValueOfBytes(nv))
	}
	out, err := encodeAny(m)
	if err != nil {
		return nil, false, err
	}
	return out, !bytes.Equal(out, wire), nil
}
