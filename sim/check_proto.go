package sim

import (
	"fmt"
	"math/rand/v2"
	"sort"
	"strings"
)

// Generic protocol-run driver used by C01, C02, C03, C07, C08 (and as a building block by C04).

func init() {
	Drivers["proto"] = driveProto
	Gens["C01"] = genC01
	Gens["C03"] = genC03
	Gens["C07"] = genC07
	Gens["C08"] = genC08
}

func lossy(c *SchedConfig) bool {
	return c.DropPct > 0 || c.CutAt > 0 || c.SilenceAt > 0
}

func emissionKey(em *Emission) string {
	return fmt.Sprintf("%s|b=%v|old=%v|both=%v|to=%v", em.Type, em.Bcast, em.ToOld, em.ToBoth, em.To)
}

func emissionMultiset(w *World) map[string][]string {
	out := map[string][]string{}
	for _, n := range w.Nodes {
		var ks []string
		for _, em := range n.Emitted {
			ks = append(ks, emissionKey(em))
		}
		sort.Strings(ks)
		out[n.Name] = ks
	}
	return out
}

func driveProto(rc *RunCtx) {
	sc := rc.Sc
	pr := rc.SetupProto("main", false)
	if pr == nil {
		return
	}
	w := pr.W
	var mt *ModelTracker
	if sc.Bool("model") {
		mt = w.AttachModel(modelName(pr.Proto), sc.Bool("waiting"))
	}
	if sc.Bool("wire") {
		pr.AttachWireChecks(nil)
	}
	if strings.HasSuffix(pr.Proto, "reshare") {
		pr.AttachEraseOrdering()
	}
	drained := w.RunSchedule(&sc.Sched)
	if rc.Failed() {
		return
	}
	if sc.Str("ids", "") == "congruent" {
		// an inadmissible id set may be refused by every party at Start; the property only speaks about
		// key generations that complete
		refused := 0
		for _, n := range w.Nodes {
			if n.StartErr != nil {
				refused++
			}
		}
		if refused == len(w.Nodes) {
			rc.Res.Probes["inadmissible_ids_refused_at_start"]++
			rc.Res.Nontrivial = true
			rc.Res.Sample = map[string]interface{}{"proto": pr.Proto, "ids": "congruent", "outcome": "refused at Start by every party"}
			return
		}
	}
	if !drained && !lossy(&sc.Sched) {
		rc.Fail("step-cap", "run did not drain within the step cap (%d steps)", w.StepNo)
		return
	}
	if drained && !lossy(&sc.Sched) {
		if e := w.AllFinished(); e != "" {
			rc.Fail("not-finished", "every sent message was delivered and every party started, but %s", e)
			return
		}
		if !pr.CheckCompleted(sc.Int("maxsubsets", 40)) {
			return
		}
		if mt != nil {
			if v := mt.Complete(); v != nil {
				return
			}
		}
		if sc.Bool("latereplay") {
			// everything that was ever delivered is delivered once more, now that every party has finished
			// (a transport that redelivers after a reconnect): no crash, no second result, nothing sent
			snap := append([]*Envelope{}, w.Delivered...)
			for _, e := range snap {
				if e.Junk {
					continue
				}
				c := *e
				w.seq++
				c.Seq = w.seq
				w.Faults["replay_after_everyone_finished"]++
				w.Deliver(&c)
				if rc.Failed() {
					return
				}
			}
		}
		if sc.Bool("wire") && !strings.HasSuffix(pr.Proto, "sign") {
			// post-run secret scan for secrets that only exist at the end (fresh shares)
			for _, n := range pr.Nodes {
				if len(n.Results) == 0 {
					continue
				}
				vs, err := pr.views([]*Node{n})
				if err != nil || vs[0].Xi == nil || vs[0].Xi.BitLen() <= 64 {
					continue
				}
				xb := vs[0].Xi.Bytes()
				for _, em := range n.Emitted {
					if containsBytes(em.Wire, xb) {
						rc.Fail("secret-on-wire", "node %s: %s contains the sender's final secret share", n.Name, em.Type)
						return
					}
				}
			}
		}
	}
	if mt != nil {
		rc.Res.Probes["model_checks"] += mt.Checks
		rc.Res.Probes["party_behind_model_steps"] += mt.Lag
	}
	// C07: reference run, FIFO, same entropy; same multiset of (type, routing) per party
	if sc.Bool("ref") && drained && !lossy(&sc.Sched) {
		ref := rc.SetupProto("ref", true)
		if ref == nil {
			return
		}
		if !ref.W.RunSchedule(&SchedConfig{Strategy: "fifo"}) || ref.W.Violation != nil {
			rc.Fail("reference-run", "FIFO reference run failed: %v", ref.W.Violation)
			return
		}
		if e := ref.W.AllFinished(); e != "" {
			rc.Fail("reference-run", "FIFO reference run: %s", e)
			return
		}
		a, b := emissionMultiset(w), emissionMultiset(ref.W)
		for name, ks := range b {
			if strings.Join(ks, ";") != strings.Join(a[name], ";") {
				rc.Fail("emission-differs", "party %s sent a different set of messages/routing than in the FIFO run:\n schedule: %v\n fifo:     %v", name, a[name], ks)
				return
			}
		}
		same := true
		for i, n := range w.Nodes {
			rn := ref.W.Nodes[i]
			am, bm := map[string]bool{}, map[string]bool{}
			for _, em := range n.Emitted {
				am[shortHash(em.Wire)] = true
			}
			for _, em := range rn.Emitted {
				bm[shortHash(em.Wire)] = true
			}
			for k := range am {
				if !bm[k] {
					same = false
				}
			}
		}
		if same {
			rc.Res.Probes["bytes_identical_to_fifo_run"]++
		} else {
			rc.Res.Probes["bytes_differ_from_fifo_run"]++
		}
	}
	if sc.Bool("countproofs") {
		countProofs(rc, w)
	}
	pr.Sample["strategy"] = sc.Sched.Strategy
	pr.Sample["prestart"] = sc.Sched.PreStart
	pr.Sample["faults"] = w.Faults
	pr.Sample["inbox_orders"] = w.InboxOrders()
	if len(rc.Res.Notes) == 0 && rc.Res.Sample == nil {
		rc.Res.Sample = pr.Sample
	}
}

// ---- generators -------------------------------------------------------------------------------------

func nt(r *rand.Rand, maxN int) (int, int) {
	n := 2 + r.IntN(maxN-1)
	t := 1 + r.IntN(n-1)
	return n, t
}

func genC02(tier string, seed uint64, run int) *Scenario {
	r := rand.New(rand.NewPCG(seedFor(seed, "C02", run, "gen"), 1))
	n, t := nt(r, 6)
	if run%16 == 9 {
		// a larger committee now and then (party indices with two digits, many signers)
		n = 7 + r.IntN(6)
		t = 1 + r.IntN(n-1)
	}
	s := t + 1 + r.IntN(n-t)
	sc := &Scenario{Check: "C02", Kind: "proto", Seed: seed, Run: run, P: map[string]interface{}{
		"proto": "ed-sign", "n": n, "t": t, "signers": s, "ids": idPatterns[r.IntN(len(idPatterns))], "idpool": r.IntN(60), "msg": edMsgKinds[run%len(edMsgKinds)],
		"edges": (run/4)%2 == 1, "ownpid": []string{"", "separate", "padded"}[run%3], "idstrings": []string{"", "", "", "blank", "dup"}[run%5],
	}}
	if run%32 == 3 {
		// directed: a key and signer set whose session id has a leading zero byte
		n, t = 10, 1+r.IntN(3)
		s = t + 1 + r.IntN(n-t)
		sc.P["n"], sc.P["t"], sc.P["signers"] = n, t, s
		sc.P["shortssid"] = true
	}
	sc.Sched = GenSched(r, s, true, false)
	return sc
}

// C01: ECDSA signing. quick: fixture key only; thorough: also fresh keys for several (n,t).
func genC01(tier string, seed uint64, run int) *Scenario {
	r := rand.New(rand.NewPCG(seedFor(seed, "C01", run, "gen"), 1))
	if run%8 == 7 {
		return &Scenario{Check: "C01", Kind: "ec-refuse", Seed: seed, Run: run, P: map[string]interface{}{"which": run / 8 % 3}}
	}
	// (edges: about one entropy read in 64 returns a value with 1-3 leading zero bytes; half of the runs)
	p := map[string]interface{}{"proto": "ec-sign", "msg": ecDigestKinds[run%len(ecDigestKinds)], "edges": (run/4)%2 == 1,
		"ownpid": []string{"", "separate", "padded"}[run%3], "idstrings": []string{"", "", "", "blank", "dup"}[run%5]}
	var s int
	if tier == "thorough" && run%3 == 0 {
		cfgs := [][2]int{{2, 1}, {3, 1}, {3, 2}, {4, 2}, {5, 1}, {5, 4}, {4, 3}}
		c := cfgs[(run/3)%len(cfgs)]
		p["keysrc"], p["n"], p["t"] = "fresh", c[0], c[1]
		p["ids"] = idPatterns[r.IntN(len(idPatterns))]
		p["idpool"] = 0
		s = c[1] + 1 + r.IntN(c[0]-c[1])
	} else {
		p["keysrc"] = "fixture"
		s = 3
		if tier == "thorough" {
			s = 3 + r.IntN(3)
		} else if run%5 == 4 {
			s = 4
		}
		if run%2 == 1 {
			// the vendored key with one party's ring-Pedersen generators re-randomised: another key set, so
			// another session id (the 26 signer subsets of the vendored key give 26 session ids for ever)
			p["rerand"] = 1 + r.IntN(1<<20)
		}
		if run%16 == 5 {
			p["shortssid"] = true // re-randomised until the session id has a leading zero byte
		}
	}
	p["signers"] = s
	sc := &Scenario{Check: "C01", Kind: "proto", Seed: seed, Run: run, P: p}
	sc.Sched = GenSched(r, s, true, false)
	return sc
}

func genC03(tier string, seed uint64, run int) *Scenario {
	r := rand.New(rand.NewPCG(seedFor(seed, "C03", run, "gen"), 1))
	ec := run%4 == 3
	if tier == "thorough" {
		ec = run%3 == 2
	}
	p := map[string]interface{}{"ids": idPatterns[r.IntN(len(idPatterns))], "idpool": r.IntN(50), "maxsubsets": 200}
	var n, t int
	if ec {
		p["proto"] = "ec-keygen"
		n, t = nt(r, 3)
		if tier == "thorough" {
			n, t = nt(r, 5)
		} else if run == 7 {
			// one quick run with a threshold above 2: polynomial evaluation with powers beyond the square
			n, t = 4, 3
		}
		p["preoff"] = r.IntN(5)
	} else {
		p["proto"] = "ed-keygen"
		n, t = nt(r, 5)
		if run%16 == 9 {
			// a larger committee now and then (party indices with two digits, high thresholds)
			n = 7 + r.IntN(6)
			t = 1 + r.IntN(n-1)
			p["maxsubsets"] = 60
		}
	}
	p["edges"] = (run/4)%2 == 1
	p["ownpid"], p["idstrings"] = []string{"", "separate", "padded"}[run%3], []string{"", "", "", "blank", "dup"}[run%5]
	p["n"], p["t"] = n, t
	if run%8 == 5 || (tier != "thorough" && run == 11) { // (run 11 is an ECDSA run: run%8 == 5 never is one in quick)
		p["ids"] = "congruent" // two ids equal modulo q: must be refused, or still yield a sound sharing
	}
	sc := &Scenario{Check: "C03", Kind: "proto", Seed: seed, Run: run, P: p}
	sc.Sched = GenSched(r, n, true, false)
	return sc
}

func protoForRun(r *rand.Rand, tier string, run int, ecEvery int) (string, bool) {
	eds := []string{"ed-keygen", "ed-sign", "ed-reshare"}
	ecs := []string{"ec-sign", "ec-keygen", "ec-reshare"}
	if ecEvery > 0 && run%ecEvery == ecEvery-1 {
		return ecs[(run/ecEvery)%len(ecs)], true
	}
	return eds[run%len(eds)], false
}

func fillProtoParams(r *rand.Rand, tier string, proto string, p map[string]interface{}) int {
	ec := strings.HasPrefix(proto, "ec")
	nodes := 0
	switch proto[3:] {
	case "keygen":
		maxN := 5
		if ec {
			maxN = 3
		}
		n, t := nt(r, maxN)
		p["n"], p["t"] = n, t
		p["preoff"] = r.IntN(5)
		nodes = n
	case "sign":
		if ec {
			p["keysrc"] = "fixture"
			s := 3
			if tier == "thorough" && r.IntN(3) == 0 {
				s = 4
			}
			p["signers"] = s
			p["msg"] = ecDigestKinds[r.IntN(len(ecDigestKinds))]
			if r.IntN(2) == 0 {
				p["rerand"] = 1 + r.IntN(1<<20)
			}
			nodes = s
		} else {
			n, t := nt(r, 5)
			s := t + 1 + r.IntN(n-t)
			p["n"], p["t"], p["signers"] = n, t, s
			p["msg"] = edMsgKinds[r.IntN(len(edMsgKinds))]
			nodes = s
		}
	case "reshare":
		if ec {
			p["keysrc"] = "fixture"
			p["oldpart"] = 3
			p["newn"], p["newt"] = 2+r.IntN(2), 1
			if p["newn"].(int) == 3 && r.IntN(2) == 0 {
				p["newt"] = 2
			}
			p["preoff"] = r.IntN(5)
			p["noproofs"] = r.IntN(3) == 0
			nodes = 3 + p["newn"].(int)
		} else {
			n, t := nt(r, 4)
			part := t + 1 + r.IntN(n-t)
			nn, ntt := nt(r, 4)
			if r.IntN(8) == 0 {
				// committees of very different sizes now and then
				nn = 5 + r.IntN(4)
				ntt = 1 + r.IntN(nn-1)
			}
			p["n"], p["t"], p["oldpart"], p["newn"], p["newt"] = n, t, part, nn, ntt
			nodes = part + nn
		}
		p["newids"] = pickStr(r, "small", "random", "aboveq")
	}
	p["ids"] = idPatterns[r.IntN(len(idPatterns))]
	p["idpool"] = r.IntN(3)
	if _, set := p["edges"]; !set {
		p["edges"] = r.IntN(2) == 0 // entropy with leading-zero values in half of the runs
	}
	// the free-form id strings of the party ids: unique mostly, all blank or shared now and then
	p["idstrings"] = []string{"", "", "", "", "blank", "dup"}[r.IntN(6)]
	// how a party learns which party it is: the list element itself, an equal but separate PartyID object
	// (the README's way), or a separate object with a fixed-width (leading-zero) encoding of the key
	p["ownpid"] = []string{"", "", "separate", "separate", "padded", ""}[r.IntN(6)]
	if (proto[3:] == "sign" || proto == "ec-reshare") && r.IntN(8) == 0 {
		p["shortssid"] = true // a key set whose session id has a leading zero byte (ssid.go)
		if proto == "ed-sign" {
			// ten parties: the signer sets of one key give about a thousand candidate session ids
			p["n"], p["t"] = 10, 1+r.IntN(3)
		}
	}
	if proto[3:] == "reshare" {
		// partyCount = number of key holders although only a subset takes part (as in the library's own tests)
		p["fullcount"] = r.IntN(2) == 0
		if ec && r.IntN(2) == 0 {
			p["rerand"] = 1 + r.IntN(1<<20)
		}
	}
	return nodes
}

// C07: schedule search with a FIFO reference run of the same scenario and entropy.
func genC07(tier string, seed uint64, run int) *Scenario {
	r := rand.New(rand.NewPCG(seedFor(seed, "C07", run, "gen"), 1))
	ecEvery := 12
	if tier == "thorough" {
		ecEvery = 10
	}
	proto, _ := protoForRun(r, tier, run, ecEvery)
	p := map[string]interface{}{"proto": proto, "ref": true, "model": true}
	nodes := fillProtoParams(r, tier, proto, p)
	p["latereplay"] = run%5 < 3 // every message delivered once more after everybody has finished
	if strings.HasPrefix(proto, "ec-") && proto != "ec-keygen" && (run/ecEvery)%6 < 3 {
		p["shortssid"] = true // every second ECDSA signing / resharing run: a session id with a leading zero byte
	}
	sc := &Scenario{Check: "C07", Kind: "proto", Seed: seed, Run: run, P: p}
	sc.Sched = GenSched(r, nodes, true, false)
	// directed strategies get a fixed share of the runs
	switch run % 7 {
	case 0:
		sc.Sched.Strategy, sc.Sched.PreStart = "prestart-flood", true
	case 1:
		sc.Sched.Strategy = "future-first"
	case 2:
		sc.Sched.Strategy = "lifo"
	case 3:
		sc.Sched.Strategy, sc.Sched.DupPct, sc.Sched.MaxFaults = "random", 100, 400
	}
	return sc
}

// C08: per-event refinement against the reference model, WaitingFor exactness, flag flips, wire
// round trip, secret scan.
func genC08(tier string, seed uint64, run int) *Scenario {
	r := rand.New(rand.NewPCG(seedFor(seed, "C08", run, "gen"), 1))
	ecEvery := 10
	proto, _ := protoForRun(r, tier, run, ecEvery)
	if run%10 == 6 {
		// a second ECDSA slot: the one at run%10 == 9 is always a channel probe (started parties only),
		// this one runs under the drawn schedule, delivery before Start included
		proto = []string{"ec-keygen", "ec-reshare", "ec-sign"}[(run/10)%3]
	}
	p := map[string]interface{}{"proto": proto, "model": true, "waiting": true, "wire": true}
	nodes := fillProtoParams(r, tier, proto, p)
	sc := &Scenario{Check: "C08", Kind: "proto", Seed: seed, Run: run, P: p}
	sc.Sched = GenSched(r, nodes, true, true)
	if run%20 == 6 {
		sc.Sched.PreStart = true
		if run%40 == 6 {
			sc.Sched.Strategy = "prestart-flood"
		}
	}
	if run%3 == 0 {
		sc.Sched.FlipPct = 20
		if sc.Sched.MaxFaults < 10 {
			sc.Sched.MaxFaults = 10
		}
	}
	if run%5 == 4 {
		// channel-discipline probe on one message type of this protocol (cycling through all of them;
		// every ECDSA run of this check is such a probe)
		rows := Models[modelName(proto)].Rows
		k := run / 10
		if strings.HasPrefix(proto, "ec-") {
			k = run / 30
		}
		sc.Sched.HoldType = rows[(k+int(seed%7))%len(rows)].Type
		sc.Sched.PreStart = false
	}
	return sc
}
