package sim

import (
	"fmt"
	"math/big"
	"math/rand/v2"
	"strings"

	"google.golang.org/protobuf/reflect/protoreflect"

	"github.com/bnb-chain/tss-lib/v2/common"
	"github.com/bnb-chain/tss-lib/v2/crypto"
	"github.com/bnb-chain/tss-lib/v2/crypto/mta"
	"github.com/bnb-chain/tss-lib/v2/crypto/paillier"
	"github.com/bnb-chain/tss-lib/v2/crypto/schnorr"
	eckg "github.com/bnb-chain/tss-lib/v2/ecdsa/keygen"
	edkg "github.com/bnb-chain/tss-lib/v2/eddsa/keygen"
	"github.com/bnb-chain/tss-lib/v2/tss"
)

// C11 — verifiers reject proofs of false statements and out-of-range secrets (partial, in situ).
// Attack catalogue: one Byzantine behaviour per verifier guard, each executed inside a protocol run.
// B is a real party; either its INPUTS are corrupted so that the library's own provers run on a
// false statement / bad witness ("input"), or one of its messages is REBUILT with the library's
// prover on a bad witness ("rebuild", session recomputed from public data and calibrated against
// B's honest proof), or it ANNOUNCES a bad statement next to an honest proof for a neighbouring
// true statement ("announce"). Oracle: the honest verifier aborts in the round that checks the
// proof and names exactly B.

func init() {
	Drivers["c11"] = driveC11
	Gens["C11"] = genC11
}

type c11Attack struct {
	ID    string
	Proto map[string]interface{}
	B     int
	Round int    // round in which the honest verifier must abort
	Kind  string // input | rebuild | announce
	Guard string
}

func c11Catalogue() []c11Attack {
	kg := func() map[string]interface{} { return map[string]interface{}{"proto": "ec-keygen", "n": 2, "t": 1} }
	kgNoProofs := func() map[string]interface{} {
		return map[string]interface{}{"proto": "ec-keygen", "n": 2, "t": 1, "noproofs": true}
	}
	sg := func() map[string]interface{} {
		return map[string]interface{}{"proto": "ec-sign", "keysrc": "fixture", "signers": 3, "msg": "random"}
	}
	edkgp := func() map[string]interface{} { return map[string]interface{}{"proto": "ed-keygen", "n": 3, "t": 1} }
	edsg := func() map[string]interface{} {
		return map[string]interface{}{"proto": "ed-sign", "n": 3, "t": 1, "signers": 3, "msg": "b32"}
	}
	return []c11Attack{
		// dln over a safe-prime product
		{ID: "dln/h2-unrelated-square", Proto: kg(), B: 0, Round: 2, Kind: "input", Guard: "h2 in <h1>: dln proof equation"},
		{ID: "dln/h2-negated", Proto: kg(), B: 1, Round: 2, Kind: "input", Guard: "h2 in <h1>: dln proof equation"},
		{ID: "dln/h1-equals-h2", Proto: kg(), B: 0, Round: 2, Kind: "input", Guard: "h1 != h2"},
		{ID: "dln/h1-is-one", Proto: kg(), B: 1, Round: 2, Kind: "input", Guard: "h not in {0,1}"},
		{ID: "dln/h2-is-N-minus-1", Proto: kg(), B: 0, Round: 2, Kind: "input", Guard: "dln proof equation"},
		{ID: "dln/wrong-exponent", Proto: kg(), B: 0, Round: 2, Kind: "input", Guard: "wrong discrete log alpha"},
		{ID: "params/ntilde-2047-bits", Proto: kg(), B: 1, Round: 2, Kind: "input", Guard: "size rule"},
		{ID: "params/paillier-2047-bits", Proto: kg(), B: 0, Round: 2, Kind: "input", Guard: "size rule"},
		// no-small-factor proof
		{ID: "fac/256-bit-factor", Proto: kg(), B: 1, Round: 3, Kind: "input", Guard: "z1,z2 range of the factorisation proof"},
		{ID: "fac/256-bit-factor-second", Proto: kg(), B: 0, Round: 3, Kind: "input", Guard: "z1,z2 range of the factorisation proof (small factor as second witness)"},
		// Paillier key proof guards (mod/fac proofs switched off on both sides so that only this proof can see it)
		{ID: "paillier-key/divisible-by-7", Proto: kgNoProofs(), B: 0, Round: 4, Kind: "input", Guard: "small-prime trial division"},
		// (no valid proof exists for such a modulus and the library's prover panics on it: announced
		// next to B's proof for its real modulus)
		{ID: "paillier-key/shares-factor-with-phi", Proto: kgNoProofs(), B: 1, Round: 4, Kind: "announce", Guard: "N-th root check"},
		// Paillier-Blum modulus proof, announced modulus (honest proof for a neighbouring true modulus)
		{ID: "mod/announce-prime", Proto: kg(), B: 0, Round: 3, Kind: "announce", Guard: "N composite"},
		{ID: "mod/announce-even", Proto: kg(), B: 0, Round: 3, Kind: "announce", Guard: "N odd"},
		{ID: "mod/announce-prime-square", Proto: kg(), B: 1, Round: 3, Kind: "announce", Guard: "N not a prime power"},
		{ID: "mod/announce-three-primes", Proto: kg(), B: 0, Round: 3, Kind: "announce", Guard: "N product of two primes"},
		{ID: "mod/announce-p-1-mod-4", Proto: kg(), B: 1, Round: 3, Kind: "announce", Guard: "Blum integer"},
		// Bob with check: multiplier inconsistent with the public point (wrong secret share as input)
		{ID: "bob-wc/wrong-share", Proto: sg(), B: 1, Round: 3, Kind: "input", Guard: "g^s1 = X^e * u"},
		{ID: "bob-wc/others-share", Proto: sg(), B: 2, Round: 3, Kind: "input", Guard: "g^s1 = X^e * u"},
		// Alice's range proof
		{ID: "alice/k=q^3+1", Proto: sg(), B: 1, Round: 2, Kind: "rebuild", Guard: "s1 <= q^3"},
		{ID: "alice/k=q^4", Proto: sg(), B: 0, Round: 2, Kind: "rebuild", Guard: "s1 <= q^3"},
		{ID: "alice/k=N/2", Proto: sg(), B: 2, Round: 2, Kind: "rebuild", Guard: "s1 <= q^3"},
		// Bob's proofs
		{ID: "bob/multiplier=q^3+1", Proto: sg(), B: 1, Round: 3, Kind: "rebuild", Guard: "s1 <= q^3"},
		{ID: "bob/multiplier=q^4", Proto: sg(), B: 0, Round: 3, Kind: "rebuild", Guard: "s1 <= q^3"},
		{ID: "bob/mask=q^7+1", Proto: sg(), B: 1, Round: 3, Kind: "rebuild", Guard: "t1 <= q^7"},
		{ID: "bob-wc/multiplier=q^3+1", Proto: sg(), B: 2, Round: 3, Kind: "rebuild", Guard: "s1 <= q^3"},
		// Schnorr: wrong discrete logarithm
		{ID: "schnorr/ed-keygen-wrong-dlog", Proto: edkgp(), B: 1, Round: 3, Kind: "rebuild", Guard: "Schnorr equation"},
		{ID: "schnorr/ed-sign-wrong-dlog", Proto: edsg(), B: 0, Round: 3, Kind: "rebuild", Guard: "Schnorr equation"},
		{ID: "schnorr/ec-sign-gamma-wrong-dlog", Proto: sg(), B: 1, Round: 5, Kind: "rebuild", Guard: "Schnorr equation"},
		// a party configured with threshold+1: it deals a polynomial of degree t+1 (t+2 commitment points, all
		// consistent with its commitment, proof and shares); the degree bound of the share check must refuse it
		// duplicated ring-Pedersen parameters: B brings another party's (NTilde, h1, h2), verbatim or with the
		// generators exchanged
		{ID: "params/ring-pedersen-copied-by-last", Proto: map[string]interface{}{"proto": "ec-keygen", "n": 3, "t": 1}, B: 2, Round: 2, Kind: "input", Guard: "h1, h2 unique across parties"},
		{ID: "params/ring-pedersen-copied-swapped", Proto: map[string]interface{}{"proto": "ec-keygen", "n": 3, "t": 1}, B: 2, Round: 2, Kind: "input", Guard: "h1, h2 unique across parties (either slot)"},
		{ID: "params/ring-pedersen-copied-padded", Proto: map[string]interface{}{"proto": "ec-keygen", "n": 3, "t": 1}, B: 2, Round: 2, Kind: "input", Guard: "h1, h2 unique across parties as integers, whatever their encoding"},
		{ID: "params/ring-pedersen-copied-by-first", Proto: map[string]interface{}{"proto": "ec-keygen", "n": 3, "t": 1}, B: 0, Round: 2, Kind: "input", Guard: "h1, h2 unique across parties"},
		{ID: "config/ed-keygen-threshold+1", Proto: edkgp(), B: 2, Round: 3, Kind: "input", Guard: "dealer polynomial has degree t"},
		{ID: "config/ec-keygen-threshold+1", Proto: map[string]interface{}{"proto": "ec-keygen", "n": 3, "t": 1}, B: 1, Round: 3, Kind: "input", Guard: "dealer polynomial has degree t"},
	}
}

func genC11(tier string, seed uint64, run int) *Scenario {
	cat := c11Catalogue()
	total := len(cat) + len(c11Transcripts())
	if tier == "thorough" && run >= 3*total {
		return nil
	}
	if idx := run % total; idx >= len(cat) {
		// harness-built transcripts that fail exactly one guard (check_c11b.go)
		return genC11Transcript(seed, run, (idx-len(cat))+(run/total)*len(c11Transcripts()), total)
	}
	a := cat[run%total]
	p := map[string]interface{}{}
	for k, v := range a.Proto {
		p[k] = v
	}
	p["attack"], p["b"], p["round"], p["akind"], p["guard"] = a.ID, a.B, a.Round, a.Kind, a.Guard
	p["variant"] = run / total // thorough repeats the catalogue with other entropy / positions
	p["cells_total"] = total
	return &Scenario{Check: "C11", Kind: "c11", Seed: seed, Run: run, P: p, Sched: SchedConfig{Strategy: "fifo"}}
}

// ---- number construction -----------------------------------------------------------------------------

func primeWith(r *rand.Rand, bits int, mod4 int64) *big.Int {
	for {
		b := make([]byte, (bits+7)/8)
		for i := range b {
			b[i] = byte(r.UintN(256))
		}
		p := new(big.Int).SetBytes(b)
		p.SetBit(p, bits-1, 1)
		p.SetBit(p, bits-2, 1)
		for i := bits; i < len(b)*8; i++ {
			p.SetBit(p, i, 0)
		}
		p.SetBit(p, 0, 1)
		if mod4 == 3 {
			p.SetBit(p, 1, 1)
		} else if mod4 == 1 {
			p.SetBit(p, 1, 0)
		}
		for k := 0; k < 4000; k++ {
			Tick()
			if p.ProbablyPrime(12) && p.BitLen() == bits {
				return p
			}
			p.Add(p, big.NewInt(4))
		}
	}
}

func mkPaillierSK(P, Q *big.Int) *paillier.PrivateKey {
	N := new(big.Int).Mul(P, Q)
	pm, qm := new(big.Int).Sub(P, big.NewInt(1)), new(big.Int).Sub(Q, big.NewInt(1))
	phi := new(big.Int).Mul(pm, qm)
	g := new(big.Int).GCD(nil, nil, pm, qm)
	return &paillier.PrivateKey{PublicKey: paillier.PublicKey{N: N}, LambdaN: new(big.Int).Div(phi, g), PhiN: phi, P: P, Q: Q}
}

// ---- sessions recomputed from public data (calibrated against B's honest proof before use) ------------

func ctxBytes(ssid []byte, i int) []byte {
	return append(append([]byte{}, ssid...), new(big.Int).SetUint64(uint64(i)).Bytes()...)
}

func ssidEd(keys []*big.Int, bigXj []*crypto.ECPoint) []byte {
	ec := tss.Edwards().Params()
	l := []*big.Int{ec.P, ec.N, ec.Gx, ec.Gy}
	l = append(l, keys...)
	if bigXj != nil {
		f, _ := crypto.FlattenECPoints(bigXj)
		l = append(l, f...)
	}
	l = append(l, big.NewInt(1), big.NewInt(0))
	return common.SHA512_256i(l...).Bytes()
}

func ssidECSign(k *eckg.LocalPartySaveData, keys []*big.Int) []byte {
	ec := tss.S256().Params()
	l := []*big.Int{ec.P, ec.N, ec.B, ec.Gx, ec.Gy}
	l = append(l, keys...)
	f, _ := crypto.FlattenECPoints(k.BigXj)
	l = append(l, f...)
	l = append(l, k.NTildej...)
	l = append(l, k.H1j...)
	l = append(l, k.H2j...)
	l = append(l, big.NewInt(1), big.NewInt(0))
	return common.SHA512_256i(l...).Bytes()
}

func setListField(wire []byte, field string, vals [][]byte) ([]byte, error) {
	m, err := decodeAny(wire)
	if err != nil {
		return nil, err
	}
	r := m.ProtoReflect()
	fd := r.Descriptor().Fields().ByName(protoreflect.Name(field))
	if fd == nil || !fd.IsList() {
		return nil, fmt.Errorf("no repeated field %s", field)
	}
	l := r.Mutable(fd).List()
	l.Truncate(0)
	for _, v := range vals {
		l.Append(protoreflect.ValueOfBytes(append([]byte{}, v...)))
	}
	return encodeAny(m)
}

func listField(wire []byte, field string) [][]byte {
	m, err := decodeAny(wire)
	if err != nil {
		return nil
	}
	var out [][]byte
	for i := 0; i < listLenOf(m, field); i++ {
		b, _ := getField(m, field, i)
		out = append(out, b)
	}
	return out
}

func bytesField(wire []byte, field string) []byte {
	m, err := decodeAny(wire)
	if err != nil {
		return nil
	}
	b, _ := getField(m, field, -1)
	return b
}

// ---- driver ---------------------------------------------------------------------------------------------

func driveC11(rc *RunCtx) {
	sc := rc.Sc
	id := sc.Str("attack", "")
	bIdx := sc.Int("b", 0)
	kind := sc.Str("akind", "input")
	r := rand.New(rand.NewPCG(seedFor(sc.Seed, id, sc.Int("variant", 0), "c11"), 53))
	q := Secp.n
	constructible := true
	note := ""
	if strings.HasPrefix(id, "config/") && strings.HasSuffix(id, "threshold+1") {
		ThresholdHook = func(idx, t int) int {
			if idx == bIdx {
				return t + 1
			}
			return t
		}
		defer func() { ThresholdHook = nil }()
	}
	// ---- input corruption -------------------------------------------------------------------------------
	rc.InputHook = func(stage string, data interface{}) {
		if kind != "input" {
			return
		}
		switch stage {
		case "ec-keygen-pre":
			pre := data.([]eckg.LocalPreParams)
			pp := &pre[bIdx]
			NT := pp.NTildei
			switch id {
			case "dln/h2-unrelated-square":
				f := new(big.Int).SetBytes([]byte(fmt.Sprintf("%x", r.Uint64())))
				f.Exp(f, big.NewInt(65537), NT)
				pp.H2i = new(big.Int).Mod(new(big.Int).Mul(f, f), NT)
			case "dln/h2-negated":
				pp.H2i = new(big.Int).Sub(NT, pp.H2i)
			case "dln/h1-equals-h2":
				pp.H2i = new(big.Int).Set(pp.H1i)
			case "dln/h1-is-one":
				pp.H1i = big.NewInt(1)
			case "dln/h2-is-N-minus-1":
				pp.H2i = new(big.Int).Sub(NT, big.NewInt(1))
			case "dln/wrong-exponent":
				pp.Alpha = new(big.Int).Add(pp.Alpha, big.NewInt(2))
				pp.Beta = new(big.Int).Add(pp.Beta, big.NewInt(2))
			case "params/ntilde-2047-bits":
				pp.NTildei = new(big.Int).Rsh(NT, 1)
				pp.NTildei.SetBit(pp.NTildei, 0, 1)
			case "params/ring-pedersen-copied-by-last", "params/ring-pedersen-copied-by-first", "params/ring-pedersen-copied-swapped", "params/ring-pedersen-copied-padded":
				// B brings another party's ring-Pedersen parameters (the dln proofs are not bound to a prover, so
				// copies of the victim's proofs, or fresh ones from the copied exponents, verify)
				victim := 0
				if bIdx == 0 {
					victim = len(pre) - 1
				}
				v := pre[victim]
				pp.NTildei, pp.P, pp.Q = v.NTildei, v.P, v.Q
				pp.H1i, pp.H2i, pp.Alpha, pp.Beta = v.H1i, v.H2i, v.Alpha, v.Beta
				if id == "params/ring-pedersen-copied-swapped" {
					pp.H1i, pp.H2i, pp.Alpha, pp.Beta = v.H2i, v.H1i, v.Beta, v.Alpha
				}
			case "params/paillier-2047-bits":
				P, Q := primeWith(r, 1024, 3), primeWith(r, 1023, 3)
				for new(big.Int).Mul(P, Q).BitLen() != 2047 {
					Q = primeWith(r, 1023, 3)
				}
				pp.PaillierSK = mkPaillierSK(P, Q)
			case "fac/256-bit-factor", "fac/256-bit-factor-second":
				P := primeWith(r, 256, 3)
				Q := primeWith(r, 1792, 3)
				for new(big.Int).Mul(P, Q).BitLen() != 2048 {
					Q = primeWith(r, 1792, 3)
				}
				if id == "fac/256-bit-factor-second" {
					P, Q = Q, P
				}
				pp.PaillierSK = mkPaillierSK(P, Q)
			case "paillier-key/divisible-by-7":
				P := big.NewInt(7)
				Q := primeWith(r, 2045, 3) // 7 * [0.75*2^2045, 2^2045) has 2048 bits
				for new(big.Int).Mul(P, Q).BitLen() != 2048 {
					Q = primeWith(r, 2045, 3)
				}
				pp.PaillierSK = mkPaillierSK(P, Q)
			case "paillier-key/shares-factor-with-phi":
				// p | q-1: gcd(N, phi(N)) > 1
				for {
					P := primeWith(r, 900, 3)
					var Q *big.Int
					for tries := 0; tries < 3000 && Q == nil; tries++ {
						kb := make([]byte, 31)
						for i := range kb {
							kb[i] = byte(r.UintN(256))
						}
						k := new(big.Int).SetBytes(kb)
						k.SetBit(k, 247, 1)
						k.SetBit(k, 0, 0)
						k.SetBit(k, 1, 1) // k = 2 mod 4 so that q = kp+1 = 3 mod 4
						c := new(big.Int).Add(new(big.Int).Mul(k, P), big.NewInt(1))
						Tick()
						if c.ProbablyPrime(12) && new(big.Int).Mul(P, c).BitLen() == 2048 {
							Q = c
						}
					}
					if Q != nil {
						pp.PaillierSK = mkPaillierSK(P, Q)
						break
					}
				}
			}
		case "ec-sign-keys":
			keys := data.([]eckg.LocalPartySaveData)
			switch id {
			case "bob-wc/wrong-share":
				keys[bIdx].Xi = new(big.Int).Add(keys[bIdx].Xi, big.NewInt(1))
			case "bob-wc/others-share":
				keys[bIdx].Xi = new(big.Int).Set(keys[(bIdx+1)%len(keys)].Xi)
			}
		}
	}
	pr := rc.SetupProto("main", false)
	if pr == nil {
		return
	}
	w := pr.W
	B := w.Nodes[bIdx]
	B.Byz = true
	if kind == "input" {
		w.TolerateCrashOf = B // B runs the real code on inputs it was never meant to see
	}
	ec := tss.S256()
	fired := 0
	// ---- announce: honest proofs, bad announced modulus ------------------------------------------------
	announce := func() *big.Int {
		switch id {
		case "mod/announce-prime":
			return primeWith(r, 2048, 3)
		case "mod/announce-even":
			n := primeWith(r, 2048, 3)
			return n.SetBit(n, 0, 0)
		case "mod/announce-prime-square":
			p := primeWith(r, 1024, 3)
			return new(big.Int).Mul(p, p)
		case "mod/announce-three-primes":
			for {
				n := new(big.Int).Mul(new(big.Int).Mul(primeWith(r, 683, 3), primeWith(r, 683, 3)), primeWith(r, 682, 3))
				if n.BitLen() == 2048 {
					return n
				}
			}
		case "paillier-key/shares-factor-with-phi":
			// p | q-1: gcd(N, phi(N)) > 1
			for {
				P := primeWith(r, 900, 3)
				for tries := 0; tries < 3000; tries++ {
					kb := make([]byte, 31)
					for i := range kb {
						kb[i] = byte(r.UintN(256))
					}
					k := new(big.Int).SetBytes(kb)
					k.SetBit(k, 247, 1)
					k.SetBit(k, 0, 0)
					c := new(big.Int).Add(new(big.Int).Mul(k, P), big.NewInt(1))
					Tick()
					if c.ProbablyPrime(12) && new(big.Int).Mul(P, c).BitLen() == 2048 {
						return new(big.Int).Mul(P, c)
					}
				}
			}
		case "mod/announce-p-1-mod-4":
			for {
				n := new(big.Int).Mul(primeWith(r, 1024, 1), primeWith(r, 1024, 3))
				if n.BitLen() == 2048 {
					return n
				}
			}
		}
		return nil
	}
	var announced *big.Int
	if kind == "announce" {
		announced = announce()
	}
	// the signers' key data re-indexed to the signer subset, as the parties see it
	var subCache []eckg.LocalPartySaveData
	subsetKeys := func() []eckg.LocalPartySaveData {
		if subCache == nil {
			ids := make(tss.SortedPartyIDs, len(w.Nodes))
			for i, n := range w.Nodes {
				ids[i] = n.PID
			}
			for i := range pr.signKeys {
				subCache = append(subCache, eckg.BuildLocalSaveDataSubset(pr.signKeys[i], ids))
			}
		}
		return subCache
	}
	// material captured from the wire for the rebuild attacks
	cAtoB := map[int]*big.Int{} // sender node -> ciphertext it sent to B in round 1
	calibrated := false
	w.Intercept = func(from *Node, em *Emission) ([]byte, bool) {
		if from != B {
			if em.Type == "ecdsa.signing.SignRound1Message1" && len(em.To) == 1 && em.To[0] == B.Idx {
				cAtoB[from.Idx] = new(big.Int).SetBytes(bytesField(em.Wire, "c"))
			}
			return em.Wire, true
		}
		switch {
		case id == "params/ring-pedersen-copied-padded" && em.Type == "ecdsa.keygen.KGRound1Message":
			// the copied generators in a non-minimal encoding (one leading zero byte): the same integers
			nw := em.Wire
			for _, f := range []string{"h1", "h2"} {
				var err error
				if nw, err = setBytesField(nw, f, append([]byte{0}, bytesField(nw, f)...)); err != nil {
					rc.Fail("harness", "%v", err)
					return em.Wire, true
				}
			}
			w.Logf("FAULT %s sends the copied h1, h2 with a leading zero byte", B.Name)
			return nw, true
		case kind == "announce" && em.Type == "ecdsa.keygen.KGRound1Message":
			nw, err := setBytesField(em.Wire, "paillier_n", announced.Bytes())
			if err != nil {
				rc.Fail("harness", "%v", err)
				return em.Wire, true
			}
			fired++
			w.Logf("FAULT %s announces a Paillier modulus that is %s (its proofs are for its real modulus)", B.Name, id)
			return nw, true
		case kind == "rebuild" && strings.HasPrefix(id, "alice/") && em.Type == "ecdsa.signing.SignRound1Message1":
			to := w.Nodes[em.To[0]]
			keys := subsetKeys()
			var k *big.Int
			switch id {
			case "alice/k=q^3+1":
				k = new(big.Int).Add(new(big.Int).Exp(q, big.NewInt(3), nil), big.NewInt(1))
			case "alice/k=q^4":
				k = new(big.Int).Exp(q, big.NewInt(4), nil)
			default:
				k = new(big.Int).Rsh(keys[bIdx].PaillierSK.N, 1)
			}
			j := to.PID.Index
			cA, pf, err := mta.AliceInit(ec, keys[bIdx].PaillierPKs[bIdx], k, keys[bIdx].NTildej[j], keys[bIdx].H1j[j], keys[bIdx].H2j[j], B.Rand)
			if err != nil {
				constructible, note = false, "library prover refused: "+err.Error()
				return em.Wire, true
			}
			parts := pf.Bytes()
			var bz [][]byte
			for i := range parts {
				bz = append(bz, parts[i])
			}
			nw, err := setBytesField(em.Wire, "c", cA.Bytes())
			if err == nil {
				nw, err = setListField(nw, "range_proof_alice", bz)
			}
			if err != nil {
				rc.Fail("harness", "%v", err)
				return em.Wire, true
			}
			fired++
			w.Logf("FAULT %s sends Alice's ciphertext of an out-of-range plaintext with the library's own range proof (%s) to %s", B.Name, id, to.Name)
			return nw, true
		case kind == "rebuild" && strings.HasPrefix(id, "bob") && em.Type == "ecdsa.signing.SignRound2Message":
			to := w.Nodes[em.To[0]]
			keys := subsetKeys()
			me := &keys[bIdx]
			j := to.PID.Index
			pkA := me.PaillierPKs[j]
			cA := cAtoB[to.Idx]
			if cA == nil {
				constructible, note = false, "Alice's ciphertext not seen"
				return em.Wire, true
			}
			var pkeys []*big.Int
			for _, n := range w.Nodes {
				pkeys = append(pkeys, n.PID.KeyInt())
			}
			ctxB := ctxBytes(ssidECSign(me, pkeys), bIdx)
			// calibration: B's honest proof must verify under the recomputed session
			honest, err := mta.ProofBobFromBytes(listField(em.Wire, "proof_bob"))
			c1h := new(big.Int).SetBytes(bytesField(em.Wire, "c1"))
			if err != nil || !honest.Verify(ctxB, ec, pkA, me.NTildej[j], me.H1j[j], me.H2j[j], cA, c1h) {
				constructible, note = false, "session calibration failed (ssid derivation differs from the harness's)"
				return em.Wire, true
			}
			calibrated = true
			q3p1 := new(big.Int).Add(new(big.Int).Exp(q, big.NewInt(3), nil), big.NewInt(1))
			mult := new(big.Int).SetBytes([]byte{7})
			mask := new(big.Int).SetUint64(r.Uint64())
			switch {
			case strings.Contains(id, "multiplier=q^3+1"):
				mult = q3p1
			case strings.Contains(id, "multiplier=q^4"):
				mult = new(big.Int).Exp(q, big.NewInt(4), nil)
			case strings.Contains(id, "mask=q^7+1"):
				mask = new(big.Int).Add(new(big.Int).Exp(q, big.NewInt(7), nil), big.NewInt(1))
			}
			cMask, rnd, err := pkA.EncryptAndReturnRandomness(B.Rand, mask)
			if err != nil {
				constructible, note = false, "encryption refused: "+err.Error()
				return em.Wire, true
			}
			cB, err := pkA.HomoMult(mult, cA)
			if err == nil {
				cB, err = pkA.HomoAdd(cB, cMask)
			}
			if err != nil {
				constructible, note = false, "homomorphic step refused: "+err.Error()
				return em.Wire, true
			}
			var nw []byte
			if strings.HasPrefix(id, "bob-wc/") {
				X := crypto.ScalarBaseMult(ec, new(big.Int).Mod(mult, q))
				pf, err := mta.ProveBobWC(ctxB, ec, pkA, me.NTildej[j], me.H1j[j], me.H2j[j], cA, cB, mult, mask, rnd, X, B.Rand)
				if err != nil {
					constructible, note = false, "library prover refused: "+err.Error()
					return em.Wire, true
				}
				parts := pf.Bytes()
				var bz [][]byte
				for i := range parts {
					bz = append(bz, parts[i])
				}
				nw, err = setBytesField(em.Wire, "c2", cB.Bytes())
				if err == nil {
					nw, err = setListField(nw, "proof_bob_wc", bz)
				}
			} else {
				pf, err := mta.ProveBob(ctxB, ec, pkA, me.NTildej[j], me.H1j[j], me.H2j[j], cA, cB, mult, mask, rnd, B.Rand)
				if err != nil {
					constructible, note = false, "library prover refused: "+err.Error()
					return em.Wire, true
				}
				parts := pf.Bytes()
				var bz [][]byte
				for i := range parts {
					bz = append(bz, parts[i])
				}
				nw, err = setBytesField(em.Wire, "c1", cB.Bytes())
				if err == nil {
					nw, err = setListField(nw, "proof_bob", bz)
				}
			}
			if nw == nil {
				rc.Fail("harness", "rebuild failed")
				return em.Wire, true
			}
			fired++
			w.Logf("FAULT %s answers %s with the library's own proof for an out-of-range witness (%s)", B.Name, to.Name, id)
			return nw, true
		case kind == "rebuild" && strings.HasPrefix(id, "schnorr/"):
			var field string
			var ctx []byte
			var point *crypto.ECPoint
			var curve = tss.Edwards()
			switch {
			case id == "schnorr/ed-keygen-wrong-dlog" && em.Type == "eddsa.keygen.KGRound2Message2":
				var pkeys []*big.Int
				for _, n := range w.Nodes {
					pkeys = append(pkeys, n.PID.KeyInt())
				}
				ctx = ctxBytes(ssidEd(pkeys, nil), bIdx)
				field = "de_commitment"
			case id == "schnorr/ed-sign-wrong-dlog" && em.Type == "eddsa.signing.SignRound2Message":
				var pkeys []*big.Int
				for _, n := range w.Nodes {
					pkeys = append(pkeys, n.PID.KeyInt())
				}
				// BigXj of the signer subset, in subset order
				var xs []*crypto.ECPoint
				for _, n := range w.Nodes {
					for i := range pr.edKeys {
						if pr.edKeys[i].ShareID.Cmp(n.PID.KeyInt()) == 0 {
							idx, _ := pr.edKeys[i].OriginalIndex()
							xs = append(xs, pr.edKeys[i].BigXj[idx])
						}
					}
				}
				ctx = ctxBytes(ssidEd(pkeys, xs), bIdx)
				field = "de_commitment"
			case id == "schnorr/ec-sign-gamma-wrong-dlog" && em.Type == "ecdsa.signing.SignRound4Message":
				var pkeys []*big.Int
				for _, n := range w.Nodes {
					pkeys = append(pkeys, n.PID.KeyInt())
				}
				ctx = ctxBytes(ssidECSign(&subsetKeys()[bIdx], pkeys), bIdx)
				field = "de_commitment"
				curve = tss.S256()
			default:
				return em.Wire, true
			}
			dc := listField(em.Wire, field)
			if len(dc) < 3 {
				constructible, note = false, "unexpected decommitment layout"
				return em.Wire, true
			}
			var err error
			point, err = crypto.NewECPoint(curve, new(big.Int).SetBytes(dc[1]), new(big.Int).SetBytes(dc[2]))
			if err != nil {
				constructible, note = false, "opened point not on curve"
				return em.Wire, true
			}
			ax, ay, tt := new(big.Int).SetBytes(bytesField(em.Wire, "proof_alpha_x")), new(big.Int).SetBytes(bytesField(em.Wire, "proof_alpha_y")), new(big.Int).SetBytes(bytesField(em.Wire, "proof_t"))
			alpha, err := crypto.NewECPoint(curve, ax, ay)
			if err != nil || !(&schnorr.ZKProof{Alpha: alpha, T: tt}).Verify(ctx, point) {
				constructible, note = false, "session calibration failed (ssid derivation differs from the harness's)"
				return em.Wire, true
			}
			calibrated = true
			wrong := new(big.Int).SetUint64(r.Uint64() | 1)
			pf, err := schnorr.NewZKProof(ctx, wrong, point, B.Rand)
			if err != nil {
				constructible, note = false, "library prover refused: "+err.Error()
				return em.Wire, true
			}
			nw, err := setBytesField(em.Wire, "proof_alpha_x", pf.Alpha.X().Bytes())
			if err == nil {
				nw, err = setBytesField(nw, "proof_alpha_y", pf.Alpha.Y().Bytes())
			}
			if err == nil {
				nw, err = setBytesField(nw, "proof_t", pf.T.Bytes())
			}
			if err != nil {
				rc.Fail("harness", "%v", err)
				return em.Wire, true
			}
			fired++
			w.Logf("FAULT %s proves knowledge of the wrong discrete logarithm with the library's own prover (%s)", B.Name, id)
			return nw, true
		}
		return em.Wire, true
	}
	w.AfterStep = append(w.AfterStep, func(ev *StepEvent) *Violation {
		if ev.Err != nil && ev.Node != B {
			ev.Node.Silenced = true
		}
		return nil
	})
	if kind == "input" {
		fired = 1
	}
	w.RunSchedule(&SchedConfig{Strategy: "fifo", MaxSteps: 4000})
	rc.Res.Cells = map[string]string{}
	outcome := "rejected"
	defer func() {
		rc.Res.Cells[id] = outcome
		rc.Res.Nontrivial = fired > 0 && constructible
		rc.Res.Sample = map[string]interface{}{"attack": id, "kind": kind, "guard": sc.Str("guard", ""), "outcome": outcome, "calibrated_session": calibrated, "note": note}
	}()
	// B's own code may fail on its corrupted inputs: that is not the verifier's business
	bFailed := false
	if w.Violation != nil {
		bOnly := true
		for _, ev := range w.Events {
			if (ev.Outcome.Panic != nil || ev.Outcome.Deadlock) && ev.Node != B {
				bOnly = false
			}
		}
		if !bOnly {
			return
		}
		// ... unless the honest parties went on to finish with what B had already sent: judged below
		w.Violation = nil
		bFailed = true
		note = "the deviating party's own code failed on its inputs"
	}
	if B.Crashed {
		bFailed = true
		note = "the deviating party's own code failed on its inputs"
	}
	if !constructible || fired == 0 {
		outcome = "not_constructible"
		if B.StartErr != nil {
			note = "B refused to start: " + errString(B.StartErr)
		}
		return
	}
	want := sc.Int("round", 0)
	errs := 0
	for _, n := range w.Nodes {
		if n == B {
			continue
		}
		for _, e := range n.Errs {
			errs++
			var ck []*big.Int
			for _, c := range e.Culprits() {
				if c != nil {
					ck = append(ck, c.KeyInt())
				}
			}
			names := dedupe(w.culpritNodes(ck))
			if !(len(names) == 1 && names[0] == B.Name) {
				outcome = "misattributed"
				rc.Fail("false-statement-misattributed", "attack %s: honest %s rejected, but names %v instead of exactly %s: %s", id, n.Name, names, B.Name, errString(e))
				rc.Res.Violation.Key = "c11-misattributed#" + id
				return
			}
			if e.Round() != want {
				outcome = "wrong-round"
				rc.Fail("false-statement-caught-late", "attack %s (guard: %s): honest %s aborted in round %d, the proof is checked in round %d: %s", id, sc.Str("guard", ""), n.Name, e.Round(), want, errString(e))
				rc.Res.Violation.Key = "c11-wrong-round#" + id
				return
			}
		}
	}
	if errs == 0 {
		fin := 0
		for _, n := range w.Nodes {
			if n != B && len(n.Results) > 0 {
				fin++
			}
		}
		if bFailed && fin == 0 {
			outcome = "not_constructible" // B broke down before the honest parties could finish or reject
			return
		}
		outcome = "accepted"
		rc.Fail("false-statement-accepted", "attack %s (guard: %s): no honest party rejected; %d honest parties finished", id, sc.Str("guard", ""), fin)
		rc.Res.Violation.Key = "c11-accepted#" + id
	}
}

var _ = edkg.NewLocalPartySaveData
