package sim

import (
	"fmt"
	"math/big"
	"strings"

	"github.com/bnb-chain/tss-lib/v2/common"
)

// Commitment/response shift attacks (C12): the deviating prover moves a first-move commitment of an
// accepted proof and the matching response together along the relation the verifier checks, so
// that the verification EQUATION still holds; the verifier must reject because the commitment is
// bound into the Fiat-Shamir challenge. The black-box shifts need no knowledge of the challenge.
// Two shifts of the factorisation proof move a value on the response side and need the challenge e:
// they are tried with e derived as the protocol description says and with the moved value left out
// of the challenge input (a prover who hopes the verifier forgot to bind it).

type ShiftCtx struct {
	Curve string   // ed | ec
	Q     *big.Int // group order
	// ring-Pedersen parameters the VERIFIER uses for this proof (NCap/NTilde, s=h1, t=h2)
	NT, H1, H2 *big.Int
	// for the e-dependent factorisation-proof shifts
	Session []byte
	N0      *big.Int // prover's Paillier modulus
	D       *big.Int // shift amount
}

var shiftKinds = map[string][]string{
	"ecdsa.keygen.KGRound1Message":      {"shift:dln1@0", "shift:dln1@64", "shift:dln1@127", "shift:dln2@3"},
	"ecdsa.resharing.DGRound2Message1":  {"shift:dln1@0", "shift:dln1@127", "shift:dln2@64"},
	"ecdsa.keygen.KGRound2Message1":     {"shift:fac-A-W1", "shift:fac-B-W2", "shift:fac-T-V", "shift:fac-sigma-V", "shift:fac-P-W1"},
	"ecdsa.resharing.DGRound4Message1":  {"shift:fac-A-W1", "shift:fac-T-V"},
	"ecdsa.signing.SignRound1Message1":  {"shift:alice-W-S2"},
	"ecdsa.signing.SignRound2Message":   {"shift:bob-ZPrm-S2", "shift:bob-W-T2", "shift:bobwc-ZPrm-S2", "shift:bobwc-W-T2"},
	"ecdsa.signing.SignRound4Message":   {"shift:schnorr"},
	"ecdsa.signing.SignRound6Message":   {"shift:schnorr", "shift:schnorrv-U"},
	"eddsa.keygen.KGRound2Message2":     {"shift:schnorr"},
	"eddsa.signing.SignRound2Message":   {"shift:schnorr"},
}

func bi(b []byte) *big.Int { return new(big.Int).SetBytes(b) }

// applyShift returns the altered wire bytes; ok=false when the shift cannot be built.
func applyShift(wire []byte, kind string, c *ShiftCtx) ([]byte, bool, string) {
	d := c.D
	mulExp := func(x, base, e, mod *big.Int) *big.Int {
		return new(big.Int).Mod(new(big.Int).Mul(x, new(big.Int).Exp(base, e, mod)), mod)
	}
	setList := func(w []byte, field string, upd map[int]*big.Int) ([]byte, bool) {
		vals := listField(w, field)
		for i, v := range upd {
			if i < 0 || i >= len(vals) {
				return nil, false
			}
			vals[i] = v.Bytes()
		}
		nw, err := setListField(w, field, vals)
		return nw, err == nil
	}
	switch {
	case kind == "shift:schnorr" || kind == "shift:schnorrv-U":
		px, py, tf := "proof_alpha_x", "proof_alpha_y", "proof_t"
		if kind == "shift:schnorrv-U" {
			px, py, tf = "v_proof_alpha_x", "v_proof_alpha_y", "v_proof_u"
		}
		var g Group = Secp
		if c.Curve == "ed" {
			g = Ed
		}
		a := Pt{X: bi(bytesField(wire, px)), Y: bi(bytesField(wire, py))}
		if !g.OnCurve(a) {
			return nil, false, "commitment not on curve"
		}
		a2 := g.Add(a, GMul(g, d, g.Base()))
		t2 := new(big.Int).Mod(new(big.Int).Add(bi(bytesField(wire, tf)), d), c.Q)
		if a2.Inf {
			return nil, false, "identity"
		}
		nw, err := setBytesField(wire, px, a2.X.Bytes())
		if err == nil {
			nw, err = setBytesField(nw, py, a2.Y.Bytes())
		}
		if err == nil {
			nw, err = setBytesField(nw, tf, t2.Bytes())
		}
		return nw, err == nil, ""
	case strings.HasPrefix(kind, "shift:dln"):
		var which, idx int
		fmt.Sscanf(kind, "shift:dln%d@%d", &which, &idx)
		field := fmt.Sprintf("dlnproof_%d", which)
		m, err := decodeAny(wire)
		if err != nil {
			return nil, false, "decode"
		}
		nt, _ := getField(m, "n_tilde", -1)
		h1b, _ := getField(m, "h1", -1)
		h2b, _ := getField(m, "h2", -1)
		NT, base := bi(nt), bi(h1b)
		if which == 2 {
			base = bi(h2b)
		}
		vals := listField(wire, field)
		if len(vals) != 258 {
			return nil, false, "layout"
		}
		alpha := mulExp(bi(vals[1+idx]), base, d, NT)
		t := new(big.Int).Add(bi(vals[130+idx]), d)
		nw, ok := setList(wire, field, map[int]*big.Int{1 + idx: alpha, 130 + idx: t})
		return nw, ok, ""
	case strings.HasPrefix(kind, "shift:fac-"):
		vals := listField(wire, "facProof")
		if len(vals) != 11 || c.NT == nil {
			return nil, false, "layout or verifier parameters unknown"
		}
		const (
			iP, iQ, iA, iB, iT, iSigma, iZ1, iZ2, iW1, iW2, iV = 0, 1, 2, 3, 4, 5, 6, 7, 8, 9, 10
		)
		v := func(i int) *big.Int { return bi(vals[i]) }
		challenge := func(omit int) *big.Int {
			in := []*big.Int{c.N0, c.NT, c.H1, c.H2}
			for _, i := range []int{iP, iQ, iA, iB, iT, iSigma} {
				if i != omit {
					in = append(in, v(i))
				}
			}
			return common.RejectionSample(c.Q, common.SHA512_256i_TAGGED(c.Session, in...))
		}
		switch kind {
		case "shift:fac-A-W1":
			nw, ok := setList(wire, "facProof", map[int]*big.Int{iA: mulExp(v(iA), c.H2, d, c.NT), iW1: new(big.Int).Add(v(iW1), d)})
			return nw, ok, ""
		case "shift:fac-B-W2":
			nw, ok := setList(wire, "facProof", map[int]*big.Int{iB: mulExp(v(iB), c.H2, d, c.NT), iW2: new(big.Int).Add(v(iW2), d)})
			return nw, ok, ""
		case "shift:fac-T-V":
			nw, ok := setList(wire, "facProof", map[int]*big.Int{iT: mulExp(v(iT), c.H2, d, c.NT), iV: new(big.Int).Add(v(iV), d)})
			return nw, ok, ""
		}
		if c.N0 == nil || c.Session == nil {
			return nil, false, "session unknown"
		}
		// calibration against the honest transcript: which challenge derivation makes equation 1 hold?
		// Candidates: every proof value named in the description is hashed, or exactly one of them is
		// not (the prover learns this from one honest proof, without reading the code).
		lhs := new(big.Int).Mod(new(big.Int).Mul(new(big.Int).Exp(c.H1, v(iZ1), c.NT), new(big.Int).Exp(c.H2, v(iW1), c.NT)), c.NT)
		omit, found := -1, false
		for _, cand := range []int{-1, iP, iQ, iA, iB, iT, iSigma} {
			if lhs.Cmp(mulExp(v(iA), v(iP), challenge(cand), c.NT)) == 0 {
				omit, found = cand, true
				break
			}
		}
		if !found {
			return nil, false, "challenge calibration failed"
		}
		switch {
		case strings.HasPrefix(kind, "shift:fac-sigma-V"):
			sg := new(big.Int).Add(v(iSigma), d)
			vals[iSigma] = sg.Bytes()
			ee := challenge(omit) // over the moved sigma, with the derivation the honest proof revealed
			nw, ok := setList(wire, "facProof", map[int]*big.Int{iSigma: sg, iV: new(big.Int).Add(v(iV), new(big.Int).Mul(ee, d))})
			return nw, ok, ""
		case strings.HasPrefix(kind, "shift:fac-P-W1"):
			// s^z1 t^w1 = A P^e : P' = P t^d needs w1' = w1 + e d
			p2 := mulExp(v(iP), c.H2, d, c.NT)
			vals[iP] = p2.Bytes()
			ee := challenge(omit)
			nw, ok := setList(wire, "facProof", map[int]*big.Int{iP: p2, iW1: new(big.Int).Add(v(iW1), new(big.Int).Mul(ee, d))})
			return nw, ok, ""
		}
	case kind == "shift:alice-W-S2":
		if c.NT == nil {
			return nil, false, "verifier parameters unknown"
		}
		vals := listField(wire, "range_proof_alice")
		if len(vals) != 6 {
			return nil, false, "layout"
		}
		nw, ok := setList(wire, "range_proof_alice", map[int]*big.Int{2: mulExp(bi(vals[2]), c.H2, d, c.NT), 5: new(big.Int).Add(bi(vals[5]), d)})
		return nw, ok, ""
	case strings.HasPrefix(kind, "shift:bob"):
		if c.NT == nil {
			return nil, false, "verifier parameters unknown"
		}
		field, n := "proof_bob", 10
		if strings.HasPrefix(kind, "shift:bobwc") {
			field, n = "proof_bob_wc", 12
		}
		vals := listField(wire, field)
		if len(vals) != n {
			return nil, false, "layout"
		}
		// [Z, ZPrm, T, V, W, S, S1, S2, T1, T2]
		ci, ri := 1, 7 // ZPrm with S2
		if strings.HasSuffix(kind, "W-T2") {
			ci, ri = 4, 9
		}
		nw, ok := setList(wire, field, map[int]*big.Int{ci: mulExp(bi(vals[ci]), c.H2, d, c.NT), ri: new(big.Int).Add(bi(vals[ri]), d)})
		return nw, ok, ""
	}
	return nil, false, "unknown shift"
}
