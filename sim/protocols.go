package sim

import (
	"fmt"
	"math/big"

	"github.com/bnb-chain/tss-lib/v2/common"
	eckg "github.com/bnb-chain/tss-lib/v2/ecdsa/keygen"
	ecrs "github.com/bnb-chain/tss-lib/v2/ecdsa/resharing"
	ecsg "github.com/bnb-chain/tss-lib/v2/ecdsa/signing"
	edkg "github.com/bnb-chain/tss-lib/v2/eddsa/keygen"
	edrs "github.com/bnb-chain/tss-lib/v2/eddsa/resharing"
	edsg "github.com/bnb-chain/tss-lib/v2/eddsa/signing"
	"github.com/bnb-chain/tss-lib/v2/tss"
)

// MakePIDs builds sorted party ids from the given keys (the harness never uses
// tss.GenerateTestPartyIDs, which draws from crypto/rand).
// PIDStrings selects the free-form id/moniker strings of the party ids of a run: "" unique strings,
// "blank" all empty, "dup" the same two strings shared by everybody. Parties are identified by their keys;
// the strings "can be anything" (tss.PartyID). Set and reset by RunScenario.
var PIDStrings string

func MakePIDs(prefix string, keys []*big.Int) tss.SortedPartyIDs {
	ids := make(tss.UnSortedPartyIDs, len(keys))
	for i, k := range keys {
		s := fmt.Sprintf("%s%d", prefix, i)
		switch PIDStrings {
		case "blank":
			s = ""
		case "dup":
			s = []string{"alice", "bob"}[i%2]
		}
		ids[i] = tss.NewPartyID(s, s, k)
	}
	return tss.SortPartyIDs(ids)
}

func clonePIDs(in tss.SortedPartyIDs) tss.SortedPartyIDs {
	keys := make([]*big.Int, len(in))
	ids := make(tss.UnSortedPartyIDs, len(in))
	for i, p := range in {
		keys[i] = p.KeyInt()
		ids[i] = tss.NewPartyID(p.Id, p.Moniker, keys[i])
	}
	return tss.SortPartyIDs(ids)
}

// LibConcurrency is the Parameters.SetConcurrency value of every party. Simulated runs use 2 (few library
// goroutines to park). The race-detector batches use 16: with a small value the library's own worker
// pools hand their slots from one goroutine to the next, and those hand-overs are happens-before edges
// that hide races between the workers from the detector (found with seeded C09d).
var LibConcurrency = 2

// ThresholdHook, when set, may give one party another threshold than the rest (a mis-configured or
// deviating party running the real code with wrong parameters). Set and reset by the driver of a run.
var ThresholdHook func(nodeIdx, threshold int) int

// OwnPID selects how a party is told which party it is: "" the element of the sorted list itself (what the
// library's tests do), "separate" an equal PartyID that is another object (what the README shows),
// "padded" a separate object whose key bytes carry a leading zero (a fixed-width encoding of the same key).
// Set and reset by RunScenario.
var OwnPID string

func ownPID(p *tss.PartyID) *tss.PartyID {
	if OwnPID == "" {
		return p
	}
	key := append([]byte{}, p.Key...)
	if OwnPID == "padded" {
		key = append([]byte{0}, key...)
	}
	return &tss.PartyID{MessageWrapper_PartyID: &tss.MessageWrapper_PartyID{Id: p.Id, Moniker: p.Moniker, Key: key}, Index: p.Index}
}

func newParams(ec interface{}, n *Node, pids tss.SortedPartyIDs, idx, count, threshold int) *tss.Parameters {
	if ThresholdHook != nil {
		threshold = ThresholdHook(idx, threshold)
	}
	var p *tss.Parameters
	switch ec.(string) {
	case "ed":
		p = tss.NewParameters(tss.Edwards(), tss.NewPeerContext(pids), ownPID(pids[idx]), count, threshold)
	default:
		p = tss.NewParameters(tss.S256(), tss.NewPeerContext(pids), ownPID(pids[idx]), count, threshold)
	}
	p.SetRand(n.Rand)
	p.SetPartialKeyRand(n.PKRand)
	p.SetConcurrency(LibConcurrency)
	return p
}

// ---- EdDSA ----------------------------------------------------------------------------------

func (w *World) AddEdKeygen(keys []*big.Int, threshold int) []*Node {
	pids := MakePIDs("p", keys)
	var nodes []*Node
	for i := range pids {
		n := w.AddNode(fmt.Sprintf("p%d", i), "", pids[i])
		params := newParams("ed", n, pids, i, len(pids), threshold)
		end := make(chan *edkg.LocalPartySaveData, 8)
		n.Party = edkg.NewLocalParty(params, n.Out, end)
		n.PollEnd = func() (interface{}, bool) {
			select {
			case r := <-end:
				return r, true
			default:
				return nil, false
			}
		}
		nodes = append(nodes, n)
	}
	w.RoundOf = roundOfType
	return nodes
}

// AddEdSigning: keys[i] is the key data of signer i; pids are the signers' ids (sorted).
func (w *World) AddEdSigning(pids tss.SortedPartyIDs, keys []edkg.LocalPartySaveData, threshold int, msg *big.Int, fullBytesLen int) []*Node {
	var nodes []*Node
	for i := range pids {
		n := w.AddNode(fmt.Sprintf("s%d", i), "", pids[i])
		params := newParams("ed", n, pids, i, len(pids), threshold)
		end := make(chan *common.SignatureData, 8)
		if fullBytesLen > 0 {
			n.Party = edsg.NewLocalParty(msg, params, keys[i], n.Out, end, fullBytesLen)
		} else {
			n.Party = edsg.NewLocalParty(msg, params, keys[i], n.Out, end)
		}
		n.PollEnd = func() (interface{}, bool) {
			select {
			case r := <-end:
				return r, true
			default:
				return nil, false
			}
		}
		nodes = append(nodes, n)
	}
	w.RoundOf = roundOfType
	return nodes
}

// oldPartyCount is the partyCount argument of the resharing parameters: the number of participating old
// members, or, when World.OldPartyCount is set, the number of holders of the key (the library's own
// resharing tests pass the latter while only a subset takes part).
func (w *World) oldPartyCount(participating int) int {
	if w.OldPartyCount > participating {
		return w.OldPartyCount
	}
	return participating
}

// AddEdResharing: oldPIDs/oldKeys are the participating old members; newKeys the new ids.
func (w *World) AddEdResharing(oldPIDs tss.SortedPartyIDs, oldKeys []edkg.LocalPartySaveData, oldThreshold int, newIDKeys []*big.Int, newThreshold int) (olds, news []*Node) {
	newPIDs := MakePIDs("n", newIDKeys)
	oldCtx, newCtx := tss.NewPeerContext(oldPIDs), tss.NewPeerContext(newPIDs)
	mk := func(n *Node, pid *tss.PartyID, key edkg.LocalPartySaveData) {
		params := tss.NewReSharingParameters(tss.Edwards(), oldCtx, newCtx, ownPID(pid), w.oldPartyCount(len(oldPIDs)), oldThreshold, len(newPIDs), newThreshold)
		params.SetRand(n.Rand)
		params.SetPartialKeyRand(n.PKRand)
		params.SetConcurrency(LibConcurrency)
		end := make(chan *edkg.LocalPartySaveData, 8)
		n.Party = edrs.NewLocalParty(params, key, n.Out, end)
		n.PollEnd = func() (interface{}, bool) {
			select {
			case r := <-end:
				return r, true
			default:
				return nil, false
			}
		}
	}
	for i := range oldPIDs {
		n := w.AddNode(fmt.Sprintf("old%d", i), "old", oldPIDs[i])
		mk(n, oldPIDs[i], oldKeys[i])
		olds = append(olds, n)
	}
	for i := range newPIDs {
		n := w.AddNode(fmt.Sprintf("new%d", i), "new", newPIDs[i])
		mk(n, newPIDs[i], edkg.NewLocalPartySaveData(len(newPIDs)))
		news = append(news, n)
	}
	w.RoundOf = roundOfType
	return
}

// ---- ECDSA ----------------------------------------------------------------------------------

type ECKeygenOpts struct {
	NoProofMod, NoProofFac bool
}

func (w *World) AddECKeygen(keys []*big.Int, threshold int, pre []eckg.LocalPreParams, o ECKeygenOpts) []*Node {
	pids := MakePIDs("p", keys)
	var nodes []*Node
	for i := range pids {
		n := w.AddNode(fmt.Sprintf("p%d", i), "", pids[i])
		params := newParams("ec", n, pids, i, len(pids), threshold)
		if o.NoProofMod {
			params.SetNoProofMod()
		}
		if o.NoProofFac {
			params.SetNoProofFac()
		}
		end := make(chan *eckg.LocalPartySaveData, 8)
		n.Party = eckg.NewLocalParty(params, n.Out, end, pre[i])
		n.PollEnd = func() (interface{}, bool) {
			select {
			case r := <-end:
				return r, true
			default:
				return nil, false
			}
		}
		nodes = append(nodes, n)
	}
	w.RoundOf = roundOfType
	return nodes
}

func (w *World) AddECSigning(pids tss.SortedPartyIDs, keys []eckg.LocalPartySaveData, threshold int, msg *big.Int, fullBytesLen int, kdd *big.Int) []*Node {
	var nodes []*Node
	for i := range pids {
		n := w.AddNode(fmt.Sprintf("s%d", i), "", pids[i])
		params := newParams("ec", n, pids, i, len(pids), threshold)
		end := make(chan *common.SignatureData, 8)
		var fb []int
		if fullBytesLen > 0 {
			fb = []int{fullBytesLen}
		}
		if kdd != nil {
			n.Party = ecsg.NewLocalPartyWithKDD(msg, params, keys[i], kdd, n.Out, end, fb...)
		} else {
			n.Party = ecsg.NewLocalParty(msg, params, keys[i], n.Out, end, fb...)
		}
		n.PollEnd = func() (interface{}, bool) {
			select {
			case r := <-end:
				return r, true
			default:
				return nil, false
			}
		}
		nodes = append(nodes, n)
	}
	w.RoundOf = roundOfType
	return nodes
}

func (w *World) AddECResharing(oldPIDs tss.SortedPartyIDs, oldKeys []eckg.LocalPartySaveData, oldThreshold int, newIDKeys []*big.Int, newThreshold int, newPre []eckg.LocalPreParams, o ECKeygenOpts) (olds, news []*Node) {
	newPIDs := MakePIDs("n", newIDKeys)
	oldCtx, newCtx := tss.NewPeerContext(oldPIDs), tss.NewPeerContext(newPIDs)
	mk := func(n *Node, pid *tss.PartyID, key eckg.LocalPartySaveData) {
		params := tss.NewReSharingParameters(tss.S256(), oldCtx, newCtx, ownPID(pid), w.oldPartyCount(len(oldPIDs)), oldThreshold, len(newPIDs), newThreshold)
		params.SetRand(n.Rand)
		params.SetPartialKeyRand(n.PKRand)
		params.SetConcurrency(LibConcurrency)
		if o.NoProofMod {
			params.SetNoProofMod()
		}
		if o.NoProofFac {
			params.SetNoProofFac()
		}
		end := make(chan *eckg.LocalPartySaveData, 8)
		n.Party = ecrs.NewLocalParty(params, key, n.Out, end)
		n.PollEnd = func() (interface{}, bool) {
			select {
			case r := <-end:
				return r, true
			default:
				return nil, false
			}
		}
	}
	for i := range oldPIDs {
		n := w.AddNode(fmt.Sprintf("old%d", i), "old", oldPIDs[i])
		mk(n, oldPIDs[i], oldKeys[i])
		olds = append(olds, n)
	}
	for i := range newPIDs {
		n := w.AddNode(fmt.Sprintf("new%d", i), "new", newPIDs[i])
		save := eckg.NewLocalPartySaveData(len(newPIDs))
		save.LocalPreParams = newPre[i]
		mk(n, newPIDs[i], save)
		news = append(news, n)
	}
	w.RoundOf = roundOfType
	return
}
