package sim

import (
	"bytes"
	"crypto/ecdsa"
	"crypto/hmac"
	"crypto/sha256"
	"crypto/sha512"
	"encoding/binary"
	"encoding/json"
	"fmt"
	"math/big"
	"math/rand/v2"

	"golang.org/x/crypto/ripemd160"

	"github.com/bnb-chain/tss-lib/v2/crypto/ckd"
	eckg "github.com/bnb-chain/tss-lib/v2/ecdsa/keygen"
	ecsg "github.com/bnb-chain/tss-lib/v2/ecdsa/signing"
	"github.com/bnb-chain/tss-lib/v2/tss"
)

// C18 — HD child key derivation matches BIP32 and signatures verify under the child key.
// A run is a history of derive / sign-with-offset steps; every derive step is checked against the
// harness's own BIP32 public-derivation model (whose self-test uses the published vectors).

func init() {
	Drivers["hd"] = driveHD
	Gens["C18"] = genC18
}

// ---- reference model: BIP32 public derivation -----------------------------------------------------

type xpub struct {
	Version  []byte
	Depth    byte
	ParentFP []byte
	Index    uint32
	Chain    []byte
	K        Pt
}

func serP(p Pt) []byte {
	out := make([]byte, 33)
	out[0] = 2 + byte(p.Y.Bit(0))
	p.X.FillBytes(out[1:])
	return out
}

func hash160(b []byte) []byte {
	s := sha256.Sum256(b)
	h := ripemd160.New()
	h.Write(s[:])
	return h.Sum(nil)
}

const b58 = "123456789ABCDEFGHJKLMNPQRSTUVWXYZabcdefghijkmnopqrstuvwxyz"

func base58Encode(b []byte) string {
	x := new(big.Int).SetBytes(b)
	var out []byte
	m := new(big.Int)
	r58 := big.NewInt(58)
	for x.Sign() > 0 {
		x.DivMod(x, r58, m)
		out = append(out, b58[m.Int64()])
	}
	for _, c := range b {
		if c != 0 {
			break
		}
		out = append(out, '1')
	}
	for i, j := 0, len(out)-1; i < j; i, j = i+1, j-1 {
		out[i], out[j] = out[j], out[i]
	}
	return string(out)
}

func base58Decode(s string) ([]byte, bool) {
	x := big.NewInt(0)
	for _, c := range []byte(s) {
		i := bytes.IndexByte([]byte(b58), c)
		if i < 0 {
			return nil, false
		}
		x.Mul(x, big.NewInt(58))
		x.Add(x, big.NewInt(int64(i)))
	}
	out := x.Bytes()
	for _, c := range []byte(s) {
		if c != '1' {
			break
		}
		out = append([]byte{0}, out...)
	}
	return out, true
}

func (k *xpub) String() string {
	var b []byte
	b = append(b, k.Version...)
	b = append(b, k.Depth)
	b = append(b, k.ParentFP...)
	var ix [4]byte
	binary.BigEndian.PutUint32(ix[:], k.Index)
	b = append(b, ix[:]...)
	b = append(b, k.Chain...)
	b = append(b, serP(k.K)...)
	c1 := sha256.Sum256(b)
	c2 := sha256.Sum256(c1[:])
	return base58Encode(append(b, c2[:4]...))
}

func parseXpub(s string) (*xpub, bool) {
	d, ok := base58Decode(s)
	if !ok || len(d) != 82 {
		return nil, false
	}
	c1 := sha256.Sum256(d[:78])
	c2 := sha256.Sum256(c1[:])
	if !bytes.Equal(c2[:4], d[78:]) {
		return nil, false
	}
	x := new(big.Int).SetBytes(d[46:78])
	// decompress
	y2 := new(big.Int).Exp(x, big.NewInt(3), Secp.p)
	y2.Add(y2, big.NewInt(7)).Mod(y2, Secp.p)
	y := new(big.Int).ModSqrt(y2, Secp.p)
	if y == nil {
		return nil, false
	}
	if y.Bit(0) != uint(d[45]&1) {
		y.Sub(Secp.p, y)
	}
	return &xpub{Version: d[0:4], Depth: d[4], ParentFP: d[5:9], Index: binary.BigEndian.Uint32(d[9:13]), Chain: d[13:45], K: Pt{X: x, Y: y}}, true
}

// ckdPub: BIP32 CKDpub. ok=false for hardened indices, depth overflow, IL >= n or identity child.
func (k *xpub) ckdPub(i uint32) (*xpub, *big.Int, bool) {
	if i >= 1<<31 || k.Depth == 255 {
		return nil, nil, false
	}
	mac := hmac.New(sha512.New, k.Chain)
	mac.Write(serP(k.K))
	var ix [4]byte
	binary.BigEndian.PutUint32(ix[:], i)
	mac.Write(ix[:])
	I := mac.Sum(nil)
	il := new(big.Int).SetBytes(I[:32])
	if il.Cmp(Secp.n) >= 0 || il.Sign() == 0 {
		return nil, nil, false
	}
	child := Secp.Add(GMul(Secp, il, Secp.Base()), k.K)
	if child.Inf {
		return nil, nil, false
	}
	return &xpub{Version: k.Version, Depth: k.Depth + 1, ParentFP: hash160(serP(k.K))[:4], Index: i, Chain: I[32:], K: child}, il, true
}

var bip32SelfTestDone, bip32SelfTestOK bool

// published BIP32 vectors (public derivation steps only)
var bip32Vectors = [][3]string{
	{"xpub661MyMwAqRbcFW31YEwpkMuc5THy2PSt5bDMsktWQcFF8syAmRUapSCGu8ED9W6oDMSgv6Zz8idoc4a6mr8BDzTJY47LJhkJ8UB7WEGuduB", "0",
		"xpub69H7F5d8KSRgmmdJg2KhpAK8SR3DjMwAdkxj3ZuxV27CprR9LgpeyGmXUbC6wb7ERfvrnKZjXoUmmDznezpbZb7ap6r1D3tgFxHmwMkQTPH"},
	{"xpub68Gmy5EdvgibQVfPdqkBBCHxA5htiqg55crXYuXoQRKfDBFA1WEjWgP6LHhwBZeNK1VTsfTFUHCdrfp1bgwQ9xv5ski8PX9rL2dZXvgGDnw", "1",
		"xpub6ASuArnXKPbfEwhqN6e3mwBcDTgzisQN1wXN9BJcM47sSikHjJf3UFHKkNAWbWMiGj7Wf5uMash7SyYq527Hqck2AxYysAA7xmALppuCkwQ"},
}

func bip32SelfTest() bool {
	if bip32SelfTestDone {
		return bip32SelfTestOK
	}
	bip32SelfTestDone = true
	for _, v := range bip32Vectors {
		p, ok := parseXpub(v[0])
		if !ok {
			return false
		}
		var i uint32
		fmt.Sscanf(v[1], "%d", &i)
		c, _, ok := p.ckdPub(i)
		if !ok || c.String() != v[2] || p.String() != v[0] {
			return false
		}
	}
	bip32SelfTestOK = true
	return true
}

// ---- driver -------------------------------------------------------------------------------------------

func genC18(tier string, seed uint64, run int) *Scenario {
	r := rand.New(rand.NewPCG(seedFor(seed, "C18", run, "gen"), 1))
	p := map[string]interface{}{"steps": 3 + r.IntN(6), "signs": 1}
	if run%3 != 0 {
		p["signs"] = 0 // derivation-only histories are cheap: many of them
		p["steps"] = 8 + r.IntN(20)
	}
	sc := &Scenario{Check: "C18", Kind: "hd", Seed: seed, Run: run, P: p}
	sc.Sched = GenSched(r, 3, true, false)
	return sc
}

func driveHD(rc *RunCtx) {
	sc := rc.Sc
	if !bip32SelfTest() {
		rc.Fail("harness", "the BIP32 reference model does not reproduce the published vectors")
		return
	}
	r := rand.New(rand.NewPCG(seedFor(sc.Seed, sc.Run, "hd"), 31))
	keys, err := LoadECFixtures()
	if err != nil {
		rc.Fail("harness", "fixtures: %v", err)
		return
	}
	base := make([]string, len(keys))
	for i := range keys {
		b, _ := json.Marshal(keys[i])
		base[i] = string(b)
	}
	ks := make([]*big.Int, len(keys))
	for i := range keys {
		ks[i] = keys[i].ShareID
	}
	pids := MakePIDs("p", ks)
	pub := pt(keys[0].ECDSAPub.X(), keys[0].ECDSAPub.Y())
	randBytes := func(n int) []byte {
		b := make([]byte, n)
		for i := range b {
			b[i] = byte(r.UintN(256))
		}
		return b
	}
	// parent: the group key (or, for derivation-only histories, also random points) + random chain code
	parentPt := pub
	if sc.Int("signs", 0) == 0 && r.IntN(2) == 0 {
		parentPt = GMul(Secp, new(big.Int).SetBytes(randBytes(32)), Secp.Base())
	}
	version := []byte{0x04, 0x88, 0xB2, 0x1E}
	model := &xpub{Version: version, Depth: 0, ParentFP: []byte{0, 0, 0, 0}, Index: 0, Chain: randBytes(32), K: parentPt}
	lib := &ckd.ExtendedKey{PublicKey: ecdsa.PublicKey{Curve: tss.S256(), X: parentPt.X, Y: parentPt.Y}, Depth: 0, ChildIndex: 0,
		ChainCode: append([]byte{}, model.Chain...), ParentFP: []byte{0, 0, 0, 0}, Version: version}
	if sc.Run%2 == 1 {
		// every second history gets its parent the way an application that stores xpub strings does:
		// parsed from the serialised form (here the reference model's serialisation)
		parsed, err := ckd.NewExtendedKeyFromString(model.String(), tss.S256())
		if err != nil {
			rc.Fail("serialisation-mismatch", "the library refuses the BIP32 serialisation of the parent key: %v", err)
			return
		}
		if parsed.PublicKey.X.Cmp(parentPt.X) != 0 || parsed.PublicKey.Y.Cmp(parentPt.Y) != 0 || !bytes.Equal(parsed.ChainCode, model.Chain) || parsed.Depth != 0 {
			rc.Fail("serialisation-mismatch", "the parent parsed from its BIP32 serialisation differs from the key that was serialised")
			return
		}
		lib = parsed
		rc.Res.Probes["parent_parsed_from_string"]++
	}
	parentString := lib.String()
	var hist []string
	signs := sc.Int("signs", 0)
	idxPool := []uint32{0, 1, 2, 1<<31 - 1, 44, 60, 1 << 30}
	for step := 0; step < sc.Int("steps", 4) && !rc.Failed(); step++ {
		plen := r.IntN(6)
		path := make([]uint32, plen)
		for i := range path {
			if r.IntN(3) == 0 {
				path[i] = idxPool[r.IntN(len(idxPool))]
			} else {
				path[i] = r.Uint32() >> 1
			}
		}
		kind := "derive"
		switch r.IntN(10) {
		case 0:
			if plen > 0 {
				kind = "hardened"
				path[r.IntN(plen)] = 1<<31 + uint32(r.IntN(5))
			}
		case 1:
			kind = "depth255"
		case 2:
			kind = "roundtrip"
		}
		// model
		m := model
		offset := big.NewInt(0)
		modelOK := true
		if kind == "depth255" {
			mm := *model
			mm.Depth = 255 - byte(r.IntN(2))*byte(min(plen, 1))
			m = &mm
		}
		start := m
		for _, i := range path {
			c, il, ok := m.ckdPub(i)
			if !ok {
				modelOK = false
				break
			}
			offset.Add(offset, il).Mod(offset, Secp.n)
			m = c
		}
		// library
		lk := *lib
		lk.Depth = start.Depth
		var delta *big.Int
		var child *ckd.ExtendedKey
		var lerr error
		out := (&Stepper{Seed: "hd", Ch: NewChooser(0, nil, true)}).Run(func() {
			delta, child, lerr = ckd.DeriveChildKeyFromHierarchy(path, &lk, Secp.n, tss.S256())
		})
		if out.Panic != nil {
			rc.Fail("panic", "DeriveChildKeyFromHierarchy(%v) panicked: %v", path, out.Panic)
			return
		}
		hist = append(hist, fmt.Sprintf("%s%v", kind, path))
		if !modelOK {
			if lerr == nil {
				rc.Fail("derivation-not-refused", "path %v from depth %d must be refused (hardened index / depth overflow / invalid intermediate) but the library derived a key", path, start.Depth)
				return
			}
			rc.Res.Probes["refusals"]++
			continue
		}
		if lerr != nil {
			rc.Fail("derivation-refused", "path %v from depth %d is valid BIP32 public derivation but the library refused: %v", path, start.Depth, lerr)
			return
		}
		if plen == 0 {
			if delta.Sign() != 0 || child.PublicKey.X.Cmp(parentPt.X) != 0 {
				rc.Fail("derivation-mismatch", "empty path must return the parent with offset 0")
				return
			}
			continue
		}
		got := &xpub{Version: child.Version, Depth: child.Depth, ParentFP: child.ParentFP, Index: child.ChildIndex, Chain: child.ChainCode, K: Pt{X: child.PublicKey.X, Y: child.PublicKey.Y}}
		if !PtEq(got.K, m.K) || !bytes.Equal(got.Chain, m.Chain) || got.Depth != m.Depth || !bytes.Equal(got.ParentFP, m.ParentFP) || got.Index != m.Index {
			rc.Fail("derivation-mismatch", "path %v: library child (key %x, chain %x, depth %d, fp %x, index %d) differs from BIP32 (key %x, chain %x, depth %d, fp %x, index %d)",
				path, got.K.X, got.Chain, got.Depth, got.ParentFP, got.Index, m.K.X, m.Chain, m.Depth, m.ParentFP, m.Index)
			return
		}
		if child.String() != m.String() {
			rc.Fail("serialisation-mismatch", "path %v: serialised extended key %s differs from BIP32 %s", path, child.String(), m.String())
			return
		}
		if delta.Cmp(offset) != 0 {
			rc.Fail("offset-mismatch", "path %v: accumulated offset %x differs from the sum of the IL values mod q %x", path, delta, offset)
			return
		}
		if !PtEq(Secp.Add(start.K, GMul(Secp, delta, Secp.Base())), got.K) {
			rc.Fail("offset-mismatch", "path %v: child != parent + offset*G", path)
			return
		}
		if kind == "roundtrip" {
			back, err := ckd.NewExtendedKeyFromString(child.String(), tss.S256())
			if err != nil || back.String() != child.String() || back.PublicKey.X.Cmp(child.PublicKey.X) != 0 || back.PublicKey.Y.Cmp(child.PublicKey.Y) != 0 {
				rc.Fail("serialisation-mismatch", "path %v: extended key does not survive String/NewExtendedKeyFromString (%v)", path, err)
				return
			}
		}
		rc.Res.Probes["derivations_checked"]++
		// the parent object is used again in the next step: deriving from it and serialising its
		// descendants must not have changed it
		if !bytes.Equal(lib.ChainCode, model.Chain) || !bytes.Equal(lib.ParentFP, model.ParentFP) || lib.String() != parentString {
			rc.Fail("parent-key-modified", "after deriving %v and serialising the result, the parent extended key object differs from what it was (chain code %x, fingerprint %x)", path, lib.ChainCode, lib.ParentFP)
			return
		}
		// sign with the offset under the derived child key
		if signs > 0 && PtEq(start.K, pub) && kind != "depth255" {
			signs--
			members := randSubset(r.IntN, 5, 3)
			spids := subsetPIDs("s", pids, members)
			src := ecKeysFor(spids, keys)
			cp := make([]eckg.LocalPartySaveData, len(src))
			for i := range src {
				cp[i] = cloneECKey(src[i])
			}
			if err := ecsg.UpdatePublicKeyAndAdjustBigXj(delta, cp, &child.PublicKey, tss.S256()); err != nil {
				rc.Fail("harness", "UpdatePublicKeyAndAdjustBigXj: %v", err)
				return
			}
			msg := new(big.Int).SetBytes(randBytes(31))
			w := rc.NewWorld(fmt.Sprintf("sign%d", step))
			// what the caller holds and hands to the parties (the adjusted copies): must come back unchanged
			held := make([]string, len(cp))
			for i := range cp {
				b, _ := json.Marshal(cp[i])
				held[i] = string(b)
			}
			defer func(cp []eckg.LocalPartySaveData, held []string) {
				for i := range cp {
					if b, _ := json.Marshal(cp[i]); string(b) != held[i] && !rc.Failed() {
						rc.Fail("key-data-modified", "signer %d: the key data handed to the signing party was modified by the session with a derivation offset:\n before %s\n after  %s", i, firstDiff(held[i], string(b), true), firstDiff(held[i], string(b), false))
						rc.Res.Verdict = "violation"
					}
				}
			}(cp, held)
			nodes := w.AddECSigning(spids, cp, 2, msg, 0, delta)
			w.AttachBasicInvariants()
			cfg := sc.Sched
			if !w.RunSchedule(&cfg) || rc.Failed() {
				if !rc.Failed() {
					rc.Fail("step-cap", "signing did not drain")
				}
				return
			}
			if e := w.AllFinished(); e != "" {
				rc.Fail("not-finished", "%s", e)
				return
			}
			if !rc.CheckSigOutputs("ec", nodes, m.K, msg, 0) {
				return
			}
			if CheckECDSASig(sigs(nodes)[0], pub, msg, 0) == nil {
				rc.Fail("offset-ignored", "the signature made with the derivation offset verifies under the parent key")
				return
			}
			for i := range keys {
				b, _ := json.Marshal(keys[i])
				if string(b) != base[i] {
					rc.Fail("key-data-modified", "party %d's stored key data changed after signing with a derivation offset", i)
					return
				}
			}
			rc.Res.Probes["child_key_signatures"]++
			hist = append(hist, fmt.Sprintf("sign%v", members))
		}
	}
	rc.Res.Nontrivial = true
	rc.Res.Sample = map[string]interface{}{"history": hist}
}
