package sim

import (
	"context"
	"errors"
	"fmt"
	"math/big"
	"math/rand/v2"
	"sort"
	"strings"
	"testing/synctest"
	"time"

	"github.com/bnb-chain/tss-lib/v2/common"
	eckg "github.com/bnb-chain/tss-lib/v2/ecdsa/keygen"
)

// C19 — generated primes and pre-parameters have the structure the proofs assume.
// The generator runs inside the bubble on a simulated entropy source: every generator goroutine
// parks at each candidate read; the simulator releases one at a time in seeded order, or cancels the
// context, makes a read fail, or sleeps past the deadline instead.

func init() {
	Drivers["primes"] = drivePrimes
	Drivers["preparams"] = drivePreParams
	Drivers["samplers"] = driveSamplers
	Gens["C19"] = genC19
}

var errEntropy = errors.New("simulated entropy source failure")

func genC19(tier string, seed uint64, run int) *Scenario {
	r := rand.New(rand.NewPCG(seedFor(seed, "C19", run, "gen"), 1))
	if (tier == "thorough" && run%200 == 199) || (tier != "thorough" && run == 0) {
		p := map[string]interface{}{"conc": 3 + r.IntN(6)}
		// half of the pre-parameter runs are fault runs: one of the two prime searches is starved until the
		// other has finished, then the context is cancelled / the deadline passes / the entropy source dies.
		// The single quick run is of this kind (it ends when one search is done: about half the cost)
		k := run / 200
		if tier != "thorough" {
			k = 1 + 2*int(seed%6)
		}
		if k%2 == 1 {
			p["starve"] = []string{"paillier", "ntilde"}[(k/2)%2]
			p["fault"] = []string{"cancel", "deadline", "entropy-dead"}[(k/4)%3]
		}
		return &Scenario{Check: "C19", Kind: "preparams", Seed: seed, Run: run, P: p}
	}
	if run%5 == 4 {
		return &Scenario{Check: "C19", Kind: "samplers", Seed: seed, Run: run, P: map[string]interface{}{"tape": []string{"zeros", "ones-then-random", "alternating", "random", "stuck-ff-40", "stuck-aa-40", "stuck-fe-40"}[(run/5)%7]}}
	}
	bits := 6 + r.IntN(59) // 6..64
	switch {
	case run%11 == 0:
		bits = 6 + r.IntN(4)
	case run%13 == 0:
		bits = 128
	case run%17 == 0:
		bits = 256
	case tier == "thorough" && run%97 == 0:
		bits = 512
	case tier == "thorough" && run%397 == 0:
		bits = 1024
	}
	fault := []string{"none", "none", "cancel", "entropy-error", "entropy-dead", "deadline", "cancel-before-start"}[r.IntN(7)]
	p := map[string]interface{}{"bits": bits, "num": 1 + r.IntN(3), "conc": 1 + r.IntN(8), "fault": fault, "at": 1 + r.IntN(40)}
	return &Scenario{Check: "C19", Kind: "primes", Seed: seed, Run: run, P: p}
}

func drivePrimes(rc *RunCtx) {
	sc := rc.Sc
	bits, num, conc := sc.Int("bits", 16), sc.Int("num", 2), sc.Int("conc", 2)
	fault, at := sc.Str("fault", "none"), sc.Int("at", 5)
	st := &Stepper{Seed: rc.EntropySeed("primes"), Ch: rc.Ch}
	reader := st.NewNodeRand("gen", "rand")
	var log []string
	ctx, cancel := context.WithCancel(context.Background())
	defer cancel()
	if fault == "deadline" {
		var c2 context.CancelFunc
		ctx, c2 = context.WithTimeout(ctx, 5*time.Minute)
		defer c2()
	}
	if fault == "cancel-before-start" {
		cancel()
	}
	fired := false
	dead := false
	firedAt := 0
	returned := false
	readsAfterReturn := 0
	st.BeforeRelease = func(ord int, d *DRBG) {
		if returned {
			readsAfterReturn++
		}
		if dead {
			d.FailAt, d.Err = d.Reads+1, errEntropy
			return
		}
		if fired || ord != at {
			return
		}
		switch fault {
		case "cancel":
			fired, firedAt = true, ord
			cancel()
			log = append(log, fmt.Sprintf("read %d: context cancelled", ord))
		case "entropy-error":
			fired, firedAt = true, ord
			d.FailAt, d.Err = d.Reads+1, errEntropy
			log = append(log, fmt.Sprintf("read %d: entropy source fails", ord))
		case "entropy-dead":
			// the source breaks and stays broken: every worker that reads from now on gets the error
			dead = true
			fired, firedAt = true, ord
			d.FailAt, d.Err = d.Reads+1, errEntropy
			log = append(log, fmt.Sprintf("read %d: entropy source fails for good", ord))
		case "deadline":
			fired, firedAt = true, ord
			time.Sleep(6 * time.Minute) // everyone else is parked: the fake clock jumps past the deadline
			log = append(log, fmt.Sprintf("read %d: clock jumps 6 minutes (deadline is 5)", ord))
		}
	}
	var primes []*common.GermainSafePrime
	var err error
	out := st.Run(func() {
		primes, err = common.GetRandomSafePrimesConcurrent(ctx, bits, num, conc, reader)
		returned = true
	})
	key := fmt.Sprintf("bits=%d num=%d conc=%d fault=%s@%d", bits, num, conc, fault, at)
	if out.Panic != nil {
		rc.Fail("panic", "%s: generator panicked: %v", key, out.Panic)
		return
	}
	if out.Deadlock {
		rc.Fail("deadlock", "%s: generator never returned (after %d reads)", key, st.ParkCount)
		return
	}
	// leak detection: nothing may be parked, and no read may arrive after the return
	synctestWaitSafe()
	st.mu.Lock()
	left := len(st.parked)
	st.mu.Unlock()
	if left > 0 || readsAfterReturn > 0 {
		rc.Fail("goroutine-leak", "%s: %d generator goroutine(s) still reading entropy after the function returned (%d reads served after return)", key, left, readsAfterReturn)
		return
	}
	if fault == "cancel-before-start" {
		fired = true
	}
	if fired {
		rc.Res.Faults[fault]++
		if err == nil {
			// legal only if the result was complete before the fault could be observed
			if len(primes) != num {
				rc.Fail("fault-ignored", "%s: no error and %d of %d pairs after the fault", key, len(primes), num)
				return
			}
			rc.Res.Probes["fault_after_completion"]++
		} else {
			if strings.HasPrefix(fault, "entropy-") && !errors.Is(err, errEntropy) && err != common.ErrGeneratorCancelled {
				rc.Fail("wrong-error", "%s: entropy failure surfaced as %v", key, err)
				return
			}
			if st.ParkCount-firedAt > 2*conc+2 {
				rc.Fail("not-prompt", "%s: %d further reads were needed after the fault at read %d before the generator returned", key, st.ParkCount-firedAt, firedAt)
				return
			}
			rc.Res.Probes["stopped_with_error"]++
			rc.Res.Nontrivial = true
			rc.Res.Sample = map[string]interface{}{"case": key, "trace": log, "error": err.Error(), "reads": st.ParkCount}
			return
		}
	}
	if err != nil {
		rc.Fail("unexpected-error", "%s: %v", key, err)
		return
	}
	if len(primes) != num {
		rc.Fail("wrong-count", "%s: %d pairs returned", key, len(primes))
		return
	}
	for i, sp := range primes {
		q, p := sp.Prime(), sp.SafePrime()
		want := new(big.Int).Add(new(big.Int).Lsh(q, 1), big.NewInt(1))
		if p.Cmp(want) != 0 {
			rc.Fail("not-safe-prime", "%s: pair %d: p != 2q+1", key, i)
			return
		}
		if !q.ProbablyPrime(40) || !p.ProbablyPrime(40) {
			rc.Fail("not-prime", "%s: pair %d: q=%v p=%v fail a 40-round primality test", key, i, q, p)
			return
		}
		if p.BitLen() != bits {
			rc.Fail("wrong-size", "%s: pair %d: p has %d bits", key, i, p.BitLen())
			return
		}
		if bits >= 8 && p.Bit(bits-2) != 1 {
			rc.Fail("wrong-size", "%s: pair %d: second-highest bit of p is clear", key, i)
			return
		}
	}
	rc.Res.Probes["pairs_checked"] += num
	rc.Res.Nontrivial = st.Reordered > 0 || conc > 1
	rc.Res.Parked = st.ParkCount
	rc.Res.Reordered = st.Reordered
	rc.Res.Sample = map[string]interface{}{"case": key, "reads": st.ParkCount, "release_reordered": st.Reordered, "p0": primes[0].SafePrime().String()}
}

func synctestWaitSafe() { synctest.Wait() }

func drivePreParams(rc *RunCtx) {
	sc := rc.Sc
	st := &Stepper{Seed: rc.EntropySeed("preparams"), Ch: rc.Ch}
	reader := st.NewNodeRand("gen", "rand")
	ctx, cancel := context.WithTimeout(context.Background(), 30*time.Minute)
	defer cancel()
	// Fault variant: one of the two searches running side by side (the Paillier primes, the NTilde primes)
	// is starved of entropy until the other one has finished - a state an unlucky machine reaches on its
	// own - and at that instant the context is cancelled, the deadline passes or the entropy source dies.
	starve, fault := sc.Str("starve", ""), sc.Str("fault", "none")
	fired, dead, returned := false, false, false
	readsAfterReturn := 0
	var families []int64
	if starve != "" {
		st.Filter = func(parked []*parkReq) []*parkReq {
			if fired {
				return nil
			}
			seen := map[int64]int{}
			for _, p := range parked {
				seen[p.parent]++
			}
			if len(families) == 0 {
				if len(seen) != 2 {
					return nil
				}
				for g := range seen {
					families = append(families, g)
				}
				// the Paillier search runs twice as many workers as the NTilde search: the family with more
				// parked readers at the first quiescent point is Paillier's (goroutine ids would not do: their
				// order depends on GOMAXPROCS)
				sort.Slice(families, func(i, j int) bool { return seen[families[i]] > seen[families[j]] })
				if seen[families[0]] == seen[families[1]] {
					families = nil
					return nil
				}
			}
			starved := families[0] // the Paillier search (the larger family)
			if starve == "ntilde" {
				starved = families[1]
			}
			var out []*parkReq
			for _, p := range parked {
				if p.parent != starved {
					out = append(out, p)
				}
			}
			if len(out) > 0 {
				return out
			}
			// quiescent, and only the starved family is reading: the other search has finished
			fired = true
			rc.Res.Faults[fault+"-after-one-search-finished"]++
			switch fault {
			case "cancel":
				cancel()
			case "deadline":
				time.Sleep(31 * time.Minute)
			case "entropy-dead":
				dead = true
			}
			return nil
		}
	}
	st.BeforeRelease = func(ord int, d *DRBG) {
		if returned {
			readsAfterReturn++
		}
		if dead {
			d.FailAt, d.Err = d.Reads+1, errEntropy
		}
	}
	var pp *eckg.LocalPreParams
	var err error
	out := st.Run(func() {
		pp, err = eckg.GeneratePreParamsWithContextAndRandom(ctx, reader, sc.Int("conc", 6))
		returned = true
	})
	key := fmt.Sprintf("pre-parameters conc=%d starve=%s fault=%s", sc.Int("conc", 6), starve, fault)
	if out.Panic != nil || out.Deadlock {
		rc.Fail("panic", "%s: panic=%v deadlock=%v", key, out.Panic, out.Deadlock)
		return
	}
	synctestWaitSafe()
	st.mu.Lock()
	left := len(st.parked)
	st.mu.Unlock()
	if left > 0 || readsAfterReturn > 0 {
		rc.Fail("goroutine-leak", "%s: %d goroutine(s) still reading entropy after the function returned (%d reads served after return)", key, left, readsAfterReturn)
		return
	}
	if fired && fault != "none" {
		if err == nil {
			rc.Fail("fault-ignored", "%s: one of the two prime searches had not finished when the fault struck, yet the function returned no error (Paillier key present: %v)", key, pp != nil && pp.PaillierSK != nil)
			return
		}
		rc.Res.Probes["preparams_stopped_with_error"]++
		rc.Res.Nontrivial = true
		rc.Res.Parked = st.ParkCount
		rc.Res.Sample = map[string]interface{}{"case": key, "error": err.Error(), "reads": st.ParkCount}
		return
	}
	if err != nil {
		rc.Fail("unexpected-error", "%s: generation failed: %v", key, err)
		return
	}
	one := big.NewInt(1)
	safe := func(p *big.Int) bool {
		if !p.ProbablyPrime(30) {
			return false
		}
		h := new(big.Int).Rsh(new(big.Int).Sub(p, one), 1)
		return h.ProbablyPrime(30)
	}
	sk := pp.PaillierSK
	switch {
	case sk == nil || sk.N.BitLen() != 2048:
		rc.Fail("paillier", "Paillier modulus is not 2048 bits")
	case sk.P.Cmp(sk.Q) == 0 || !safe(sk.P) || !safe(sk.Q) || new(big.Int).Mul(sk.P, sk.Q).Cmp(sk.N) != 0:
		rc.Fail("paillier", "Paillier modulus is not the product of two distinct safe primes")
	case pp.NTildei.BitLen() != 2048:
		rc.Fail("ntilde", "NTilde is not 2048 bits")
	}
	if rc.Failed() {
		return
	}
	P := new(big.Int).Add(new(big.Int).Lsh(pp.P, 1), one)
	Q := new(big.Int).Add(new(big.Int).Lsh(pp.Q, 1), one)
	if !safe(P) || !safe(Q) || new(big.Int).Mul(P, Q).Cmp(pp.NTildei) != 0 || P.Cmp(Q) == 0 {
		rc.Fail("ntilde", "NTilde is not the product of the two distinct safe primes 2P+1, 2Q+1")
		return
	}
	if pp.NTildei.Cmp(sk.N) == 0 || new(big.Int).GCD(nil, nil, pp.NTildei, sk.N).Cmp(one) != 0 {
		rc.Fail("ntilde", "NTilde is not independent of the Paillier modulus")
		return
	}
	for name, h := range map[string]*big.Int{"h1": pp.H1i, "h2": pp.H2i} {
		if big.Jacobi(h, P) != 1 || big.Jacobi(h, Q) != 1 {
			rc.Fail("h1h2", "%s is not a square modulo NTilde", name)
			return
		}
	}
	if new(big.Int).Exp(pp.H1i, pp.Alpha, pp.NTildei).Cmp(pp.H2i) != 0 || new(big.Int).Exp(pp.H2i, pp.Beta, pp.NTildei).Cmp(pp.H1i) != 0 {
		rc.Fail("h1h2", "h1 and h2 do not generate each other with alpha, beta")
		return
	}
	pq := new(big.Int).Mul(pp.P, pp.Q)
	if new(big.Int).Mod(new(big.Int).Mul(pp.Alpha, pp.Beta), pq).Cmp(one) != 0 {
		rc.Fail("h1h2", "alpha*beta != 1 mod pq")
		return
	}
	rc.Res.Nontrivial = true
	rc.Res.Parked = st.ParkCount
	rc.Res.Sample = map[string]interface{}{"preparams": "valid", "reads": st.ParkCount, "conc": sc.Int("conc", 6)}
}

// tape is an adversarial entropy source.
type tape struct {
	kind  string
	n     int
	reads int
	rng   *rand.Rand
}

func (t *tape) Read(p []byte) (int, error) {
	t.reads++
	for i := range p {
		switch t.kind {
		case "zeros":
			if t.reads <= 6 {
				p[i] = 0
			} else {
				p[i] = byte(t.rng.UintN(256))
			}
		case "ones-then-random":
			if t.reads <= 4 {
				p[i] = 0xff
			} else {
				p[i] = byte(t.rng.UintN(256))
			}
		case "stuck-ff-40", "stuck-aa-40", "stuck-fe-40":
			// a source that is stuck for forty reads and then recovers
			if t.reads <= 40 {
				p[i] = map[string]byte{"stuck-ff-40": 0xff, "stuck-aa-40": 0xaa, "stuck-fe-40": 0xfe}[t.kind]
				if t.kind == "stuck-fe-40" && i < len(p)-1 {
					p[i] = 0xff
				}
			} else {
				p[i] = byte(t.rng.UintN(256))
			}
		case "alternating":
			if (t.reads+i)%2 == 0 {
				p[i] = 0xff
			} else {
				p[i] = byte(t.rng.UintN(256))
			}
		default:
			p[i] = byte(t.rng.UintN(256))
		}
	}
	t.n += len(p)
	return len(p), nil
}

func driveSamplers(rc *RunCtx) {
	sc := rc.Sc
	r := rand.New(rand.NewPCG(seedFor(sc.Seed, sc.Run, "samplers"), 37))
	fx, err := LoadECFixtures()
	if err != nil {
		rc.Fail("harness", "%v", err)
		return
	}
	bounds := []*big.Int{}
	for i := int64(1); i <= 64; i++ {
		bounds = append(bounds, big.NewInt(i))
	}
	bounds = append(bounds, big.NewInt(81), big.NewInt(125), big.NewInt(49*49), new(big.Int).Lsh(big.NewInt(1), 64), Secp.n, fx[0].NTildei, fx[1].PaillierSK.N)
	st := &Stepper{Seed: "samplers", Ch: NewChooser(0, nil, true)}
	checked := 0
	var fail string
	out := st.Run(func() {
		for _, b := range bounds {
			tp := &tape{kind: sc.Str("tape", "random"), rng: rand.New(rand.NewPCG(r.Uint64(), 1))}
			v := common.GetRandomPositiveInt(tp, b)
			if v == nil || v.Sign() < 0 || v.Cmp(b) >= 0 {
				fail = fmt.Sprintf("GetRandomPositiveInt(%v) returned %v", b, v)
				return
			}
			checked++
			if b.Cmp(big.NewInt(2)) >= 0 {
				tp = &tape{kind: sc.Str("tape", "random"), rng: rand.New(rand.NewPCG(r.Uint64(), 1))}
				u := common.GetRandomPositiveRelativelyPrimeInt(tp, b)
				if u == nil || u.Sign() <= 0 || u.Cmp(b) >= 0 || new(big.Int).GCD(nil, nil, u, b).Cmp(big.NewInt(1)) != 0 {
					fail = fmt.Sprintf("GetRandomPositiveRelativelyPrimeInt(%v) returned %v", b, u)
					return
				}
				checked++
			}
			if b.Bit(0) == 1 && b.Cmp(big.NewInt(3)) >= 0 {
				// odd non-square moduli have elements with Jacobi symbol -1
				sq := new(big.Int).Sqrt(b)
				if sq.Mul(sq, sq).Cmp(b) != 0 {
					tp = &tape{kind: sc.Str("tape", "random"), rng: rand.New(rand.NewPCG(r.Uint64(), 1))}
					w := common.GetRandomQuadraticNonResidue(tp, b)
					if w == nil || w.Sign() < 0 || w.Cmp(b) >= 0 || big.Jacobi(w, b) != -1 {
						fail = fmt.Sprintf("GetRandomQuadraticNonResidue(%v) returned %v", b, w)
						return
					}
					checked++
				}
			}
		}
		for _, bits := range []int{1, 2, 7, 8, 9, 255, 256, 257, 2048} {
			tp := &tape{kind: sc.Str("tape", "random"), rng: rand.New(rand.NewPCG(r.Uint64(), 1))}
			v := common.MustGetRandomInt(tp, bits)
			if v == nil || v.Sign() < 0 || v.BitLen() > bits {
				fail = fmt.Sprintf("MustGetRandomInt(%d) returned %v", bits, v)
				return
			}
			checked++
		}
	})
	if out.Panic != nil {
		rc.Fail("panic", "sampler panicked: %v", out.Panic)
		return
	}
	if out.Deadlock {
		rc.Fail("deadlock", "sampler did not terminate")
		return
	}
	if fail != "" {
		rc.Fail("sampler-contract", "%s (tape %s)", fail, sc.Str("tape", ""))
		return
	}
	rc.Res.Probes["sampler_calls_checked"] += checked
	rc.Res.Nontrivial = true
	rc.Res.Sample = map[string]interface{}{"tape": sc.Str("tape", ""), "calls": checked}
}
