package sim

import (
	"fmt"
	"io"
	"math/big"
	"math/rand/v2"
	"sort"
	"strings"

	"github.com/bnb-chain/tss-lib/v2/crypto"
	"github.com/bnb-chain/tss-lib/v2/crypto/dlnproof"
	"github.com/bnb-chain/tss-lib/v2/crypto/facproof"
	"github.com/bnb-chain/tss-lib/v2/crypto/modproof"
	"github.com/bnb-chain/tss-lib/v2/crypto/mta"
	"github.com/bnb-chain/tss-lib/v2/crypto/paillier"
	"github.com/bnb-chain/tss-lib/v2/crypto/schnorr"
	eckg "github.com/bnb-chain/tss-lib/v2/ecdsa/keygen"
	"github.com/bnb-chain/tss-lib/v2/tss"
)

// C12, second half: the prover -> wire parts -> (altering channel) -> parser -> verifier exchange of
// every proof system on its own. The in-situ matrix (check_byz.go) alters the same components inside
// protocol runs, but a quick run can only sample that matrix; here every component of every proof
// system meets every alteration kind in every quick run, together with the statement and session
// variants, because one exchange costs milliseconds. The fault is the channel's: one wire part of an
// honestly produced proof is replaced before the verifier sees it.

func init() {
	Drivers["proof-tamper"] = driveProofTamper
}

var benchSystems = []string{"schnorr-ec", "schnorr-ed", "schnorr-v", "schnorr-v-ed", "dln", "paillier-key", "mod", "fac", "alice", "bob", "bob-wc"}

// partKinds: single-component replacements. "neg" is q-x (the additive inverse of a scalar), "neg-p"
// is p-x (the other point with the same x on a Weierstrass curve when applied to y; the negated point
// on the Edwards curve when applied to x).
var partKinds = []string{"+1", "-1", "rand", "zero", "neg", "neg-p", "swap"}

const proofTamperChunk = 24

// proofTamperRuns is the number of run indices the proof-level half takes at the front of C12.
func proofTamperRuns(tier string) int {
	if tier == "thorough" {
		return len(benchSystems) * 12 // 12 chunks of 24 parts cover the longest proof (dln: 258 parts)
	}
	return len(benchSystems)
}

func genProofTamper(tier string, seed uint64, run int) *Scenario {
	p := map[string]interface{}{"system": benchSystems[run%len(benchSystems)], "params": int(seedFor(seed, "pt", run) % 5), "session": []string{"short", "empty", "long"}[run%3]}
	p["params2"] = (p["params"].(int) + 1 + run%4) % 5
	if tier == "thorough" {
		p["chunk"] = run / len(benchSystems)
	} else {
		p["chunk"] = -1 // few positions of the long repeated parts, every position of the short proofs
	}
	return &Scenario{Check: "C12", Kind: "proof-tamper", Seed: seed, Run: run, P: p, Sched: SchedConfig{Strategy: "fifo"}}
}

// proofBench is one honestly produced proof with its verifier.
type proofBench struct {
	parts    [][]byte
	variants []string // other statements / sessions the same proof must not verify under
	// verify parses the parts and runs the verifier; variant "" is the statement and session the proof
	// was made for. A parser refusal counts as a rejection.
	verify func(parts [][]byte, variant string) bool
	ed     bool
}

func cloneParts(parts [][]byte) [][]byte {
	out := make([][]byte, len(parts))
	for i := range parts {
		out[i] = append([]byte{}, parts[i]...)
	}
	return out
}

func otherSession(s []byte) []byte {
	if len(s) == 0 {
		return []byte{0}
	}
	o := append([]byte{}, s...)
	o[len(o)-1] ^= 1
	return o
}

func bigs(parts [][]byte) []*big.Int {
	out := make([]*big.Int, len(parts))
	for i := range parts {
		out[i] = new(big.Int).SetBytes(parts[i])
	}
	return out
}

func randScalar(r *rand.Rand, order *big.Int) *big.Int {
	b := make([]byte, 40)
	for i := range b {
		b[i] = byte(r.UintN(256))
	}
	x := new(big.Int).Mod(new(big.Int).SetBytes(b), order)
	if x.Sign() == 0 {
		x.SetInt64(1)
	}
	return x
}

// buildBench runs the library's prover for one system. It must be called from the worker goroutine of
// a step (the prover reads entropy).
func buildBench(system string, session []byte, A, Bp eckg.LocalPartySaveData, r *rand.Rand, rd io.Reader) (*proofBench, string) {
	ec := tss.S256()
	q := Secp.n
	one := big.NewInt(1)
	addG := func(P *crypto.ECPoint) *crypto.ECPoint {
		o, err := P.Add(crypto.ScalarBaseMult(P.Curve(), one))
		if err != nil {
			return crypto.ScalarBaseMult(P.Curve(), big.NewInt(5))
		}
		return o
	}
	switch system {
	case "schnorr-ec", "schnorr-ed":
		curve, order := ec, q
		if system == "schnorr-ed" {
			curve, order = tss.Edwards(), Ed.n
		}
		x := randScalar(r, order)
		X := crypto.ScalarBaseMult(curve, x)
		pf, err := schnorr.NewZKProof(session, x, X, rd)
		if err != nil {
			return nil, "prover refused: " + err.Error()
		}
		b := &proofBench{parts: [][]byte{pf.Alpha.X().Bytes(), pf.Alpha.Y().Bytes(), pf.T.Bytes()}, ed: system == "schnorr-ed",
			variants: []string{"session", "statement"}}
		X2 := addG(X)
		b.verify = func(parts [][]byte, variant string) bool {
			v := bigs(parts)
			al, err := crypto.NewECPoint(curve, v[0], v[1])
			if err != nil {
				return false
			}
			s, st := session, X
			if variant == "session" {
				s = otherSession(session)
			} else if variant == "statement" {
				st = X2
			}
			return (&schnorr.ZKProof{Alpha: al, T: v[2]}).Verify(s, st)
		}
		return b, ""
	case "schnorr-v", "schnorr-v-ed":
		curve, order := ec, q
		if system == "schnorr-v-ed" {
			curve, order = tss.Edwards(), Ed.n
		}
		s, l := randScalar(r, order), randScalar(r, order)
		R := crypto.ScalarBaseMult(curve, randScalar(r, order))
		V, err := R.ScalarMult(s).Add(crypto.ScalarBaseMult(curve, l))
		if err != nil {
			return nil, "harness: V is the point at infinity"
		}
		pf, err := schnorr.NewZKVProof(session, V, R, s, l, rd)
		if err != nil {
			return nil, "prover refused: " + err.Error()
		}
		b := &proofBench{parts: [][]byte{pf.Alpha.X().Bytes(), pf.Alpha.Y().Bytes(), pf.T.Bytes(), pf.U.Bytes()}, ed: system == "schnorr-v-ed",
			variants: []string{"session", "statement-V", "statement-R"}}
		V2, R2 := addG(V), addG(R)
		b.verify = func(parts [][]byte, variant string) bool {
			v := bigs(parts)
			al, err := crypto.NewECPoint(curve, v[0], v[1])
			if err != nil {
				return false
			}
			ss, sv, sr := session, V, R
			switch variant {
			case "session":
				ss = otherSession(session)
			case "statement-V":
				sv = V2
			case "statement-R":
				sr = R2
			}
			return (&schnorr.ZKVProof{Alpha: al, T: v[2], U: v[3]}).Verify(ss, sv, sr)
		}
		return b, ""
	case "dln":
		pf := dlnproof.NewDLNProof(A.H1i, A.H2i, A.Alpha, A.P, A.Q, A.NTildei, rd)
		bz, err := pf.Serialize()
		if err != nil {
			return nil, "serialise: " + err.Error()
		}
		b := &proofBench{parts: cloneParts(bz), variants: []string{"statement-swapped", "statement-other-N", "statement-h2+1"}}
		b.verify = func(parts [][]byte, variant string) bool {
			p2, err := dlnproof.UnmarshalDLNProof(cloneParts(parts))
			if err != nil {
				return false
			}
			switch variant {
			case "statement-swapped":
				return p2.Verify(A.H2i, A.H1i, A.NTildei)
			case "statement-other-N":
				return p2.Verify(A.H1i, A.H2i, Bp.NTildei)
			case "statement-h2+1":
				return p2.Verify(A.H1i, new(big.Int).Add(A.H2i, one), A.NTildei)
			}
			return p2.Verify(A.H1i, A.H2i, A.NTildei)
		}
		return b, ""
	case "paillier-key":
		k := randScalar(r, q)
		pub := crypto.ScalarBaseMult(ec, randScalar(r, q))
		pf := A.PaillierSK.Proof(k, pub)
		parts := make([][]byte, len(pf))
		for i := range pf {
			parts[i] = pf[i].Bytes()
		}
		b := &proofBench{parts: parts, variants: []string{"statement-k", "statement-pub", "statement-N"}}
		pub2 := addG(pub)
		b.verify = func(parts [][]byte, variant string) bool {
			var p2 paillier.Proof
			if len(parts) != len(p2) {
				return false
			}
			for i, v := range bigs(parts) {
				p2[i] = v
			}
			n, kk, pp := A.PaillierSK.N, k, pub
			switch variant {
			case "statement-k":
				kk = new(big.Int).Add(k, one)
			case "statement-pub":
				pp = pub2
			case "statement-N":
				n = Bp.PaillierSK.N
			}
			ok, err := p2.Verify(n, kk, pp)
			return err == nil && ok
		}
		return b, ""
	case "mod":
		pf, err := modproof.NewProof(session, A.PaillierSK.N, A.PaillierSK.P, A.PaillierSK.Q, rd)
		if err != nil {
			return nil, "prover refused: " + err.Error()
		}
		bz := pf.Bytes()
		b := &proofBench{parts: cloneParts(bz[:]), variants: []string{"session", "statement-N"}}
		b.verify = func(parts [][]byte, variant string) bool {
			p2, err := modproof.NewProofFromBytes(cloneParts(parts))
			if err != nil {
				return false
			}
			s, n := session, A.PaillierSK.N
			if variant == "session" {
				s = otherSession(session)
			} else if variant == "statement-N" {
				n = Bp.PaillierSK.N
			}
			return p2.Verify(s, n)
		}
		return b, ""
	case "fac":
		pf, err := facproof.NewProof(session, ec, A.PaillierSK.N, Bp.NTildei, Bp.H1i, Bp.H2i, A.PaillierSK.P, A.PaillierSK.Q, rd)
		if err != nil {
			return nil, "prover refused: " + err.Error()
		}
		bz := pf.Bytes()
		b := &proofBench{parts: cloneParts(bz[:]), variants: []string{"session", "statement-N0", "statement-NCap", "statement-swapped-st"}}
		b.verify = func(parts [][]byte, variant string) bool {
			p2, err := facproof.NewProofFromBytes(cloneParts(parts))
			if err != nil {
				return false
			}
			s, n0, nc, h1, h2 := session, A.PaillierSK.N, Bp.NTildei, Bp.H1i, Bp.H2i
			switch variant {
			case "session":
				s = otherSession(session)
			case "statement-N0":
				n0 = Bp.PaillierSK.N
			case "statement-NCap":
				nc = A.NTildei
			case "statement-swapped-st":
				h1, h2 = h2, h1
			}
			return p2.Verify(s, ec, n0, nc, h1, h2)
		}
		return b, ""
	case "alice":
		m := randScalar(r, q)
		pk := &A.PaillierSK.PublicKey
		c, rr, err := pk.EncryptAndReturnRandomness(rd, m)
		if err != nil {
			return nil, "encrypt: " + err.Error()
		}
		pf, err := mta.ProveRangeAlice(ec, pk, c, Bp.NTildei, Bp.H1i, Bp.H2i, m, rr, rd)
		if err != nil {
			return nil, "prover refused: " + err.Error()
		}
		bz := pf.Bytes()
		b := &proofBench{parts: cloneParts(bz[:]), variants: []string{"statement-c", "statement-pk", "statement-NTilde", "statement-swapped-h"}}
		c2, err := pk.HomoAdd(c, c)
		if err != nil {
			return nil, "harness: " + err.Error()
		}
		b.verify = func(parts [][]byte, variant string) bool {
			p2, err := mta.RangeProofAliceFromBytes(cloneParts(parts))
			if err != nil {
				return false
			}
			k, nt, h1, h2, cc := pk, Bp.NTildei, Bp.H1i, Bp.H2i, c
			switch variant {
			case "statement-c":
				cc = c2
			case "statement-pk":
				k = &Bp.PaillierSK.PublicKey
			case "statement-NTilde":
				nt = A.NTildei
			case "statement-swapped-h":
				h1, h2 = h2, h1
			}
			return p2.Verify(ec, k, nt, h1, h2, cc)
		}
		return b, ""
	case "bob", "bob-wc":
		x := randScalar(r, q)
		pk := &A.PaillierSK.PublicKey
		c1, err := pk.Encrypt(rd, randScalar(r, q))
		if err != nil {
			return nil, "encrypt: " + err.Error()
		}
		y := new(big.Int).SetUint64(r.Uint64())
		cy, rr, err := pk.EncryptAndReturnRandomness(rd, y)
		if err != nil {
			return nil, "encrypt: " + err.Error()
		}
		c2, err := pk.HomoMult(x, c1)
		if err == nil {
			c2, err = pk.HomoAdd(c2, cy)
		}
		if err != nil {
			return nil, "homomorphic step: " + err.Error()
		}
		c1b, _ := pk.HomoAdd(c1, c1)
		c2b, _ := pk.HomoAdd(c2, c1)
		X := crypto.ScalarBaseMult(ec, x)
		X2 := addG(X)
		b := &proofBench{variants: []string{"session", "statement-c1", "statement-c2", "statement-pk", "statement-NTilde"}}
		if system == "bob" {
			pf, err := mta.ProveBob(session, ec, pk, A.NTildei, A.H1i, A.H2i, c1, c2, x, y, rr, rd)
			if err != nil {
				return nil, "prover refused: " + err.Error()
			}
			bz := pf.Bytes()
			b.parts = cloneParts(bz[:])
		} else {
			pf, err := mta.ProveBobWC(session, ec, pk, A.NTildei, A.H1i, A.H2i, c1, c2, x, y, rr, X, rd)
			if err != nil {
				return nil, "prover refused: " + err.Error()
			}
			bz := pf.Bytes()
			b.parts = cloneParts(bz[:])
			b.variants = append(b.variants, "statement-X")
		}
		b.verify = func(parts [][]byte, variant string) bool {
			s, k, nt, a1, a2, xx := session, pk, A.NTildei, c1, c2, X
			switch variant {
			case "session":
				s = otherSession(session)
			case "statement-c1":
				a1 = c1b
			case "statement-c2":
				a2 = c2b
			case "statement-pk":
				k = &Bp.PaillierSK.PublicKey
			case "statement-NTilde":
				nt = Bp.NTildei
			case "statement-X":
				xx = X2
			}
			if system == "bob" {
				p2, err := mta.ProofBobFromBytes(cloneParts(parts))
				if err != nil {
					return false
				}
				return p2.Verify(s, ec, k, nt, A.H1i, A.H2i, a1, a2)
			}
			p2, err := mta.ProofBobWCFromBytes(ec, cloneParts(parts))
			if err != nil {
				return false
			}
			return p2.Verify(s, ec, k, nt, A.H1i, A.H2i, a1, a2, xx)
		}
		return b, ""
	}
	return nil, "harness: unknown system " + system
}

// benchPositions: which part indices a scenario alters. chunk<0: all of a short proof, the few
// positions of indexPlan for a long one; chunk>=0: that block of proofTamperChunk positions.
func benchPositions(n, chunk int) []int {
	var out []int
	if chunk >= 0 {
		for i := chunk * proofTamperChunk; i < (chunk+1)*proofTamperChunk && i < n; i++ {
			out = append(out, i)
		}
		return out
	}
	for i := range indexPlan(n, "quick", partKinds, "") {
		out = append(out, i)
	}
	sort.Ints(out)
	return out
}

func driveProofTamper(rc *RunCtx) {
	sc := rc.Sc
	fx, err := LoadECFixtures()
	if err != nil {
		rc.Fail("harness", "%v", err)
		return
	}
	system := sc.Str("system", "schnorr-ec")
	A := fx[sc.Int("params", 0)]
	Bp := fx[sc.Int("params2", 1)]
	if sc.Int("params", 0) == sc.Int("params2", 1) {
		Bp = fx[(sc.Int("params", 0)+1)%5]
	}
	r := rand.New(rand.NewPCG(seedFor(sc.Seed, sc.Run, "proof-tamper"), 61))
	st := &Stepper{Seed: rc.EntropySeed("proof-tamper"), Ch: NewChooser(0, nil, true)}
	rd := st.NewNodeRand("prover", "rand")
	var session []byte
	switch sc.Str("session", "short") {
	case "short":
		session = []byte("session-1")
	case "long":
		session = make([]byte, 300)
		for i := range session {
			session[i] = byte(r.UintN(256))
		}
	}
	var bench *proofBench
	var fail string
	type accepted struct{ what string }
	var bad []accepted
	tried, variantsTried := 0, 0
	chunk := sc.Int("chunk", -1)
	out := st.Run(func() {
		bench, fail = buildBench(system, session, A, Bp, r, rd)
		if bench == nil {
			return
		}
		if !bench.verify(bench.parts, "") {
			fail = "honest proof rejected by the bench verifier"
			return
		}
		if chunk <= 0 {
			for _, v := range bench.variants {
				variantsTried++
				if bench.verify(bench.parts, v) {
					bad = append(bad, accepted{"the unaltered proof under variant " + v})
				}
			}
		}
		ctx := &TamperCtx{Q: Secp.n, P: Secp.p, EdCurve: bench.ed, Rand: func(n int) []byte {
			b := make([]byte, n)
			for i := range b {
				b[i] = byte(r.UintN(256))
			}
			return b
		}}
		if bench.ed {
			ctx.Q, ctx.P = Ed.n, Ed.p
		}
		for _, i := range benchPositions(len(bench.parts), chunk) {
			for _, kind := range partKinds {
				Tick()
				parts := cloneParts(bench.parts)
				if kind == "swap" {
					j := i + 1
					if j >= len(parts) {
						continue
					}
					parts[i], parts[j] = parts[j], parts[i]
				} else {
					nv, ok := mutateValue(parts[i], kind, ctx)
					if !ok {
						continue
					}
					parts[i] = nv
				}
				if new(big.Int).SetBytes(parts[i]).Cmp(new(big.Int).SetBytes(bench.parts[i])) == 0 {
					continue // the same integer: not an alteration
				}
				tried++
				if bench.verify(parts, "") {
					bad = append(bad, accepted{fmt.Sprintf("part %d of %d altered by %s", i, len(parts), kind)})
				}
			}
		}
	})
	key := fmt.Sprintf("%s session=%s params=%d/%d chunk=%d", system, sc.Str("session", ""), sc.Int("params", 0), sc.Int("params2", 1), chunk)
	if out.Panic != nil {
		rc.Fail("panic", "%s: %v\n%s", key, out.Panic, firstRepoFrames(out.Stack))
		return
	}
	if out.Deadlock {
		rc.Fail("deadlock", "%s: prover or verifier never returned", key)
		return
	}
	if fail != "" {
		if strings.HasPrefix(fail, "harness") {
			rc.Fail("harness", "%s: %s", key, fail)
			return
		}
		// no accepted honest proof to start from: that is C10's finding, not a C12 violation; counted
		rc.Res.Probes["bench_without_honest_proof"]++
		rc.Res.Sample = map[string]interface{}{"exchange": key, "unavailable": fail}
		return
	}
	if len(bad) > 0 {
		rc.Fail("altered-proof-accepted", "%s: the verifier accepted %s (and %d more)", key, bad[0].what, len(bad)-1)
		rc.Res.Violation.Key = "altered-accepted#proof." + system
		return
	}
	rc.Res.Probes["proof_parts_altered_"+system] += tried
	rc.Res.Probes["proof_variants_"+system] += variantsTried
	rc.Res.Faults["part-replaced"] += tried
	rc.Res.Faults["statement-or-session-replaced"] += variantsTried
	rc.Res.Nontrivial = tried+variantsTried > 0
	rc.Res.Sample = map[string]interface{}{"exchange": key, "alterations": tried, "variants": variantsTried}
}
