package sim

import (
	"os"
	"strconv"
	"testing"
)

func TestSmoke(t *testing.T) {
	check := os.Getenv("SMOKE_CHECK")
	if check == "" {
		t.Skip()
	}
	n, _ := strconv.Atoi(os.Getenv("SMOKE_N"))
	from, _ := strconv.Atoi(os.Getenv("SMOKE_FROM"))
	tier := os.Getenv("SMOKE_TIER")
	if tier == "" { tier = "quick" }
	for i := from; i < from+n; i++ {
		sc := Gens[check](tier, 1, i)
		r := RunScenario(t, sc)
		t.Logf("run %d %v %s verdict=%s steps=%d nontrivial=%v faults=%v probes=%v wall=%dms hash=%s", i, sc.P, sc.Sched.Strategy, r.Verdict, r.Steps, r.Nontrivial, r.Faults, r.Probes, r.WallMs, r.LogHash[:8])
		if r.Violation != nil {
			t.Logf("VIOLATION %v", r.Violation)
			if os.Getenv("SMOKE_LOG") != "" {
				for _, l := range r.Log { t.Log(l) }
			}
		}
	}
}
