#!/bin/sh
# setup_cmd: build the simulation worker offline with go1.26.8 (warms the build cache; the first
# build compiles the Go 1.26 standard library).
set -e
cd "$(dirname "$0")"
export GOFLAGS=-mod=mod GOPROXY=off GOSUMDB=off GOTOOLCHAIN=local
./run build
