#!/usr/bin/env python3
"""Regenerates MANIFEST.json from the tables below (kept in the repository so that the manifest's
wording has one source)."""
import json, os

ROOT = os.path.dirname(os.path.abspath(__file__))

BASE_NOTE = ("Trusted: the harness's independent verifiers (affine secp256k1/edwards25519 arithmetic over math/big, btcec ECDSA verifier, crypto/ed25519), "
             "the reference round/routing tables of DESIGN.md appendix A, Go 1.26.8 testing/synctest, the SHA-256 DRBG. Assumes the README transport contract "
             "(reliable broadcast, authenticated senders). Seeded search / listed fault space: a clean batch is evidence, not proof.")
TECH_SCHED = ("deterministic simulation with fault injection: seeded schedule and fault search over real parties on a simulated transport, entropy and clock; "
              "oracles after every event and over the recorded history; replayable, minimised choice lists")
TECH_BYZ = ("deterministic simulation with Byzantine-node fault injection: a listed fault space (message type x field x index x alteration, enumerated by "
            "protobuf reflection) executed as full simulations with real parties; crash-isolated worker processes; replay files per cell")

CHECKS = [
    ("C01", "exploration", TECH_SCHED, "DESIGN.md 3 C01",
     "Seeded search over ECDSA signing runs (key source, signer subset, digest shape, delivery schedule, duplicates/replays/pre-Start deliveries); every finisher's "
     "SignatureData is checked with two independent ECDSA verifiers, low-S, fixed width, R||S, public-key recovery and the echoed message; digests >= q must be refused "
     "before any message. Exploration is the right level: the quantifier ranges over schedules and inputs that cannot be enumerated."),
    ("C02", "exploration", TECH_SCHED, "DESIGN.md 3 C02",
     "Seeded search over EdDSA signing runs on freshly simulated keys for 1<=t<n<=6, all message shapes of the property, schedules and benign faults; outputs checked with "
     "crypto/ed25519 over the harness's own encoding of the group key."),
    ("C03", "exploration", TECH_SCHED, "DESIGN.md 3 C03",
     "Seeded search over keygen runs of both curves; algebraic oracle over all parties' outputs (identical public view, Xi*G, every (t+1)- and (t+2)-subset in the exponent, "
     "secret interpolation, Paillier key consistency)."),
    ("C04", "exploration", TECH_SCHED, "DESIGN.md 3 C04",
     "Seeded search over resharing runs with completion, cut-at-step, silenced-party and mid-step crash faults (a party's entropy source fails at a seeded read, the call panics "
     "out of the library) and chains; the erase-ordering and save-before-ack invariants are evaluated after every event, old keys must still sign after an interruption, new "
     "members must sign under the same key, t' members must fail."),
    ("C05", "fault_enumeration", TECH_BYZ, "DESIGN.md 3 C05, appendix B",
     "Listed fault space of single-field alterations by one deviating party in all six protocols (thorough walks it completely, quick samples by seed), including openings the "
     "deviating party has committed to, point-to-point messages altered for one recipient only, congruent non-canonical scalars; half of the cells under pre-Start or random "
     "delivery; oracles: honest outputs valid and equal, blame only on the deviator, exact blame for covered fields, no key loss in resharing. "
     "Fault enumeration is the right level: the quantifier is a finite product of message fields and alteration kinds."),
    ("C06", "fault_enumeration", TECH_BYZ, "DESIGN.md 3 C06",
     "Boundary-value alphabet on every field of every message plus crafted relations (committed off-curve/identity/torsion points, openings of wrong length, thetas summing to "
     "zero) plus wire-level junk (mutated, truncated, foreign-type, unknown-type bytes, odd sender indices, before Start and after finish) against real parties in "
     "crash-isolated processes, half of the cells under pre-Start or random delivery and half of them driving a party on after it reported an error; oracle: every call "
     "returns, no panic in any goroutine, no hang (a real-time stall watchdog in the worker turns a leaked lock into a hang report). Decided only for values a message can "
     "carry to the verifiers/decoders."),
    ("C07", "exploration", TECH_SCHED, "DESIGN.md 3 C07",
     "Seeded and directed schedule search (FIFO reference vs. LIFO, starvation, future-first, duplicate-everything, pre-Start flood, random, mixed) over all six protocols; same "
     "message multiset and routing as the reference, exactly one result, drained network implies everyone finished."),
    ("C08", "exploration", TECH_SCHED, "DESIGN.md 3 C08, appendix A",
     "Per-event refinement of every emission and of WaitingFor() against an executable reference model of rounds/routing written from the protocol description; broadcast-flag "
     "flips, wire round trip and secret scan on every message."),
    ("C09", "exploration", "deterministic simulation: caller goroutines parked at a guarded yield hook around the party mutex, lock order decided by the seeded chooser, "
     "porcupine linearizability check of the recorded invoke/return history; plus seeded concurrent workloads under the Go race detector", "DESIGN.md 3 C09",
     "Simulator-decided lock-acquisition interleavings of concurrent Start/Update/WaitingFor calls (exactly-once, result validity, no engine error, no deadlock, linearizable "
     "history) and race-detector runs of the same workloads with real goroutines."),
    ("C10", "exploration", TECH_SCHED, "DESIGN.md 3 C10",
     "Partial claim: every proof the six protocols generate in fault-free simulated runs (all proof systems of the property, on real parameters, sessions and wire encoding, "
     "with leading-zero entropy injected) must be accepted; witnesses and sessions are those the protocols produce."),
    ("C11", "fault_enumeration", "deterministic simulation with Byzantine prover nodes: a listed attack catalogue (one behaviour per verifier guard) in which the deviating "
     "party runs the library's own provers on false statements or out-of-range witnesses inside real protocol runs", "DESIGN.md 3 C11, appendix C",
     "Partial claim: for each guard in the catalogue the honest verifier must abort in the checking round and name the prover; plus harness-built transcripts that satisfy every "
     "equation of a verifier and fail exactly one guard, handed to the exported verifier. Soundness against provers outside the catalogue is not decided (it quantifies over "
     "all strategies)."),
    ("C12", "fault_enumeration", TECH_BYZ, "DESIGN.md 3 C12",
     "Every component and every index of every proof as carried by the protocols, perturbed in flight (+1, -1, random, swap with neighbour, zero, q-x, p-x; thorough walks the complete "
     "index range of the 258/163/13/12/11/10/6-element proofs): the consuming honest party must reject and name the sender. Statement/session substitution by mirror of "
     "another party's proof component is part of the same matrix (kind 'other' in C05). A proof-level bench (prover -> wire parts -> one part replaced -> parser -> verifier, "
     "eleven proof systems, every part x seven kinds, other session, altered statement components) runs in front of the matrix in both tiers."),
    ("C13", "exploration", TECH_SCHED + "; two-node exchange over the simulated transport for the exported share-conversion functions", "DESIGN.md 3 C13",
     "Partial claim: in-flight ciphertext alterations inside real signing runs must be rejected with blame; two-node Alice/Bob exchanges over all ordered pairs of the vendored "
     "parameter sets with the per-pair identity alpha+beta=ab as oracle; the aggregate identity is certified by every valid signature of C01."),
    ("C15", "fault_enumeration", TECH_BYZ, "DESIGN.md 3 C15",
     "Partial claim, in situ through keygen and resharing (dealer = each party): altered shares, commitments and committed openings must be rejected with blame on the dealer; "
     "shares read from the wire verify only under their own id (harness arithmetic and the library's Share.Verify) and reconstruct with every subset of t+1 or more but not "
     "with t (harness Lagrange code and the library's ReConstruct); inadmissible id configurations are refused at Start."),
    ("C18", "exploration", TECH_SCHED + "; reference-model comparison against the harness's BIP32 public-derivation implementation", "DESIGN.md 3 C18",
     "Partial claim: derive-then-sign histories; each derivation step is compared with an independent BIP32 model (self-tested on published vectors), each signing step is a "
     "simulated threshold signing that must verify under the child key, not the parent, and leave the stored shares unchanged."),
    ("C19", "exploration", "deterministic simulation of the concurrent generator on a simulated entropy source: parked generator goroutines released in seeded order, "
     "cancellation / entropy failure / fake-clock deadline injected at seeded read ordinals, leak detection by reads after return", "DESIGN.md 3 C19",
     "Structure of generated safe primes and pre-parameters, prompt stop on cancellation/entropy failure/deadline, no goroutine left behind, sampler contracts under adversarial "
     "entropy tapes; pre-parameter generation also with one of its two concurrent prime searches starved until the other finished and a fault at that instant."),
    ("C20", "exploration", TECH_SCHED + "; operation histories against a simulated key store with deep snapshot comparison", "DESIGN.md 3 C20",
     "Histories of reload / sign / repeated sign / sign-with-offset / aborted sign on one key: caller-held key data byte-identical after every operation, reloaded data signs "
     "identically, all completed sessions use distinct nonces; a second batch runs 2-3 sessions over the same key data side by side under the race detector."),
]

NOT_APPLICABLE = [
    ("C14", "pure algebraic identities and domain guards of functions of (key, m, c): no schedule, clock, peer or fault enters; in protocol runs the guards are shadowed by the "
            "proofs verified before them (DESIGN.md section 4)"),
    ("C16", "injectivity/binding of an encoding over all input pairs: exhaustive tuple enumeration is model checking, not simulation; its in-flight clause (an altered, added, "
            "removed or re-grouped decommitment does not open) is exercised at every commit/reveal site inside C05/C15 (DESIGN.md section 4)"),
    ("C17", "pure functions of coordinates; the doors a peer or a disk can reach (message fields, committed openings, JSON reload) are hit by C05/C06's off-curve/identity/torsion "
            "alphabet and C20's reload (DESIGN.md section 4)"),
]

PENDING = {}


def main():
    claimed = [c[0] for c in CHECKS]
    m = {
        "version": 1,
        "setup_cmd": "./setup.sh",
        "hooks": {
            "guard": "verif",
            "enable": "the harness module builds /repo through a replace directive with `go test -c -tags verif` (go1.26.8, GOFLAGS=-mod=mod, offline)",
            "baseline_off_cmd": "cd /repo && go test -vet=off -count=1 -timeout 25m ./...",
            "source_commits": ["bc45ae2"],
            "add_only": True,
        },
        "engines": [{
            "name": "sim", "path": "/verif/sim", "serves_properties": claimed,
            "kind_free_text": "deterministic simulator: real tss-lib parties inside a testing/synctest bubble; simulated transport, seeded DRBG entropy with parked library "
                              "goroutines, fake clock, in-memory key store; one seed decides schedule, faults and entropy; supervisor ./run fans out worker processes, "
                              "isolates crashes, minimises and writes replay files"}],
        "checks": [],
        "notes": "See DESIGN.md. known_findings.json lists repaired defects (status fixed, with the /repo commit) and recorded ones (status known).",
        "not_applicable": [{"property_id": p, "reason": r} for p, r in NOT_APPLICABLE] + [{"property_id": p, "reason": r} for p, r in PENDING.items() if p not in claimed],
    }
    for pid, cat, tech, ref, text in CHECKS:
        m["checks"].append({
            "property_id": pid, "quick_cmd": "./run %s quick" % pid, "thorough_cmd": "./run %s thorough" % pid,
            "evidence_file": "evidence/%s.json" % pid, "replay_cmd_template": "./run replay {path}", "engine": "sim",
            "level_claimed": {"category": cat, "text": text, "design_ref": ref}, "level_note": BASE_NOTE, "technique": tech})
    with open(os.path.join(ROOT, "MANIFEST.json"), "w") as f:
        json.dump(m, f, indent=1)


if __name__ == "__main__":
    main()
